//! E1 gramsweep: explores program scopes, calling the real `kiki::generate` on every grammar and
//! comparing its verdict, its emitted automaton and its conflict reports with R-gram.
//! Decides C04, C11, C17, C07(d); feeds E2 (C01/C03 model layer).

use crate::common::*;
use crate::extract::{self, Cell, Extracted};
use crate::refgram::*;
use crate::scopes::*;
use rayon::prelude::*;
use serde_json::{json, Value};
use std::collections::{BTreeMap, BTreeSet, VecDeque};

pub enum Gen {
    Ok(String),
    Conflict(Box<kiki::TableConflictErr>),
    Err(String),
    Panic(String),
}

impl Gen {
    pub fn class(&self) -> &'static str {
        match self {
            Gen::Ok(_) => "Ok",
            Gen::Conflict(_) => "TableConflict",
            Gen::Err(_) => "other error",
            Gen::Panic(_) => "panic",
        }
    }
    pub fn describe(&self) -> String {
        match self {
            Gen::Ok(_) => "Ok".into(),
            Gen::Conflict(_) => "Err(TableConflict)".into(),
            Gen::Err(e) => format!("Err({e})"),
            Gen::Panic(p) => format!("panic: {}", normalize_panic(p)),
        }
    }
}

pub fn generate(src: &str) -> Gen {
    match catch(|| kiki::generate(src)) {
        Ok(Ok(s)) => Gen::Ok(s.0),
        Ok(Err(kiki::KikiErr::TableConflict(e))) => Gen::Conflict(e),
        Ok(Err(e)) => Gen::Err(format!("{e:?}")),
        Err(p) => Gen::Panic(p),
    }
}

pub struct Case {
    pub g: Grammar,
    pub pres: Presentation,
    pub rendered: Rendered,
}

impl Case {
    pub fn new(g: Grammar, pres: Presentation) -> Case {
        let rendered = render(&g, &pres);
        Case { g, pres, rendered }
    }
    pub fn to_json(&self) -> Value {
        json!({
            "source": self.rendered.source,
            "grammar": grammar_to_json(&self.g),
            "grammar_readable": grammar_json(&self.g)["productions"],
            "presentation": pres_to_json(&self.pres),
        })
    }
    pub fn from_json(v: &Value) -> Option<Case> {
        let g = grammar_from_json(&v["grammar"])?;
        let pres = pres_from_json(&v["presentation"])?;
        Some(Case::new(g, pres))
    }
}

pub fn grammar_to_json(g: &Grammar) -> Value {
    let prods: Vec<Value> = g
        .prods
        .iter()
        .map(|(l, r)| {
            json!([l, r.iter().map(|s| match s { Sym::N(b) => json!(["n", b]), Sym::T(b) => json!(["t", b]) }).collect::<Vec<_>>()])
        })
        .collect();
    json!({"n": g.n, "t": g.t, "prods": prods})
}

pub fn grammar_from_json(v: &Value) -> Option<Grammar> {
    let mut prods = vec![];
    for p in v["prods"].as_array()? {
        let l = p.get(0)?.as_u64()? as u8;
        let mut rhs = vec![];
        for s in p.get(1)?.as_array()? {
            let b = s.get(1)?.as_u64()? as u8;
            rhs.push(if s.get(0)?.as_str()? == "n" { Sym::N(b) } else { Sym::T(b) });
        }
        prods.push((l, rhs));
    }
    Some(Grammar { n: v["n"].as_u64()? as usize, t: v["t"].as_u64()? as usize, prods })
}

pub fn pres_to_json(p: &Presentation) -> Value {
    json!({
        "decl_order": p.decl_order, "single_as_struct": p.single_as_struct,
        "styles": p.styles.iter().map(|s| json!([s.named, s.skip_mask])).collect::<Vec<_>>(),
        "layout": p.layout, "naming": p.naming, "attribute": p.attribute, "payload": p.payload, "names": p.names,
    })
}

pub fn pres_from_json(v: &Value) -> Option<Presentation> {
    Some(Presentation {
        decl_order: v["decl_order"].as_array()?.iter().map(|x| x.as_u64().map(|y| y as u8)).collect::<Option<_>>()?,
        single_as_struct: v["single_as_struct"].as_array()?.iter().map(|x| x.as_bool()).collect::<Option<_>>()?,
        styles: v["styles"].as_array()?.iter().map(|s| Some(ProdStyle { named: s.get(0)?.as_bool()?, skip_mask: s.get(1)?.as_u64()? as u32 })).collect::<Option<_>>()?,
        layout: v["layout"].as_u64()? as u8,
        naming: v["naming"].as_u64()? as u8,
        attribute: v["attribute"].as_str()?.to_string(),
        payload: v["payload"].as_str()?.to_string(),
        names: v["names"].as_object().map(|m| m.iter().filter_map(|(k, x)| Some((k.clone(), x.as_str()?.to_string()))).collect()).unwrap_or_default(),
    })
}

// ---------------------------------------------------------------------------------------------
// Accumulator

#[derive(Default)]
pub struct Acc {
    pub counters: BTreeMap<String, u64>,
    pub findings: Vec<Finding>,
    pub violating: u64,
    pub samples: Vec<Value>,
    pub self_check_errors: Vec<String>,
    pub maxima: BTreeMap<String, u64>,
}

impl Acc {
    pub fn inc(&mut self, k: &str) {
        self.add(k, 1);
    }
    pub fn add(&mut self, k: &str, n: u64) {
        *self.counters.entry(k.to_string()).or_insert(0) += n;
    }
    pub fn max(&mut self, k: &str, n: u64) {
        let e = self.maxima.entry(k.to_string()).or_insert(0);
        if n > *e {
            *e = n;
        }
    }
    pub fn get(&self, k: &str) -> u64 {
        self.counters.get(k).copied().unwrap_or(0)
    }
    pub fn finding(&mut self, f: Finding) {
        self.violating += 1;
        if self.findings.len() < 40 {
            self.findings.push(f);
        }
    }
    pub fn sample(&mut self, v: impl FnOnce() -> Value) {
        if self.samples.len() < 2 {
            self.samples.push(v());
        }
    }
    pub fn merge(&mut self, other: Acc) {
        for (k, v) in other.counters {
            *self.counters.entry(k).or_insert(0) += v;
        }
        for (k, v) in other.maxima {
            self.max(&k, v);
        }
        self.violating += other.violating;
        for f in other.findings {
            if self.findings.len() < MAX_FINDINGS_KEPT {
                self.findings.push(f);
            }
        }
        for s in other.samples {
            if self.samples.len() < 12 {
                self.samples.push(s);
            }
        }
        for e in other.self_check_errors {
            if self.self_check_errors.len() < 5 {
                self.self_check_errors.push(e);
            }
        }
    }
}

// ---------------------------------------------------------------------------------------------
// Scope specifications and the sweep driver

#[derive(Clone, Debug)]
pub enum Spec {
    G(Scope),
    Nbh { seed: &'static str, k: usize, cap: usize },
    /// the exhaustive presentation space of pspace.rs
    PSpace { max_fields: usize, recursion: bool },
    /// the repository's own accepted grammar files (examples, parser.kiki), through the reference front end,
    /// and their neighbourhoods of `k` edits (capped)
    Files { k: usize, cap: usize },
    /// the name-relation space of names.rs: all ordered pairs of names of at most 1+`extra` characters in all role pairs
    Names { extra: usize },
    /// the scaled families of scaled.rs (large in one dimension)
    Scaled { deep: bool },
    /// every grammar of a (small) scope under EVERY presentation (scopes::for_each_presentation): the interactions
    /// of grammar shape with `_` fields, named / tuple fieldsets, struct / enum, declaration order and layout
    GP(Scope),
}

impl Spec {
    pub fn name(&self) -> String {
        match self {
            Spec::G(s) => s.name(),
            Spec::Nbh { seed, k, .. } => format!("Nbh({seed},{k})"),
            Spec::PSpace { max_fields, recursion } => format!("PresentationSpace(fields<={max_fields}{})", if *recursion { ",recursive" } else { "" }),
            Spec::Files { k, .. } => format!("RepositoryGrammars(+{k} edits)"),
            Spec::Names { extra } => format!("NameRelations(names<={} chars, {} role pairs)", 1 + extra, crate::names::ROLE_PAIRS.len()),
            Spec::Scaled { deep } => format!("ScaledFamilies({})", if *deep { "deep" } else { "quick" }),
            Spec::GP(s) => format!("{} x all presentations", s.name()),
        }
    }
}

pub fn g(n: usize, t: usize, p: usize, k: usize) -> Spec {
    Spec::G(Scope { n, t, p, k, symmetry: false, only_cyclic: false })
}
/// Only the grammars of the scope that have a derivation cycle.
pub fn gcyclic(n: usize, t: usize, p: usize, k: usize) -> Spec {
    Spec::G(Scope { n, t, p, k, symmetry: true, only_cyclic: true })
}
pub fn gsym(n: usize, t: usize, p: usize, k: usize) -> Spec {
    Spec::G(Scope { n, t, p, k, symmetry: true, only_cyclic: false })
}

pub fn all_seed_nbh(k_small: usize, k_large: usize, cap: usize) -> Vec<Spec> {
    seeds().into_iter().map(|(name, g)| Spec::Nbh { seed: name, k: if g.prods.len() <= 8 && g.t <= 3 { k_small } else { k_large }, cap }).collect()
}

pub struct SweepResult {
    pub acc: Acc,
    pub scopes: Vec<Value>,
    pub grammars: u64,
}

/// Runs `per_case` on every grammar of every scope, under its rotating presentation.
/// Deterministic: work units are merged in index order. `budget_s` caps the wall time per call;
/// a capped scope is reported as not completed.
pub fn sweep(specs: &[Spec], budget_s: f64, per_case: &(dyn Fn(&Case, u64, &mut Acc) + Sync)) -> SweepResult {
    let started = std::time::Instant::now();
    let mut total = Acc::default();
    let mut scopes = vec![];
    let mut grammars = 0u64;
    for spec in specs {
        let t0 = std::time::Instant::now();
        let capped = std::sync::atomic::AtomicBool::new(false);
        let over = || started.elapsed().as_secs_f64() > budget_s;
        let (accs, size_note): (Vec<Acc>, Value) = match spec {
            Spec::G(sc) => {
                let rhss = all_rhs(sc.n, sc.t, sc.k);
                let tops = work_units(sc, 512);
                let accs: Vec<Acc> = tops
                    .par_iter()
                    .enumerate()
                    .map(|(ui, top)| {
                        let mut acc = Acc::default();
                        if over() {
                            capped.store(true, std::sync::atomic::Ordering::Relaxed);
                            return acc;
                        }
                        let mut idx = (ui as u64) << 32;
                        for_each_completion(sc, &rhss, top, &mut |gr| {
                            let pres = Presentation::rotating(&gr, idx);
                            let case = Case::new(gr, pres);
                            per_case(&case, idx, &mut acc);
                            acc.inc("grammars");
                            idx += 1;
                        });
                        acc
                    })
                    .collect();
                (accs, json!({"work_units": tops.len(), "raw_size": scope_size(sc).to_string()}))
            }
            Spec::Nbh { seed, k, cap } => {
                let sg = seeds().into_iter().find(|(n, _)| n == seed).expect("seed").1;
                let (list, was_capped) = neighbourhood(&sg, *k, *cap);
                let accs: Vec<Acc> = list
                    .par_chunks(64)
                    .enumerate()
                    .map(|(ci, chunk)| {
                        let mut acc = Acc::default();
                        if over() {
                            capped.store(true, std::sync::atomic::Ordering::Relaxed);
                            return acc;
                        }
                        for (j, gr) in chunk.iter().enumerate() {
                            let idx = ((ci * 64 + j) as u64) | (1 << 60);
                            // index 0 (the seed itself) is also run in the plain presentation
                            let pres = if ci == 0 && j == 0 { Presentation::plain(gr) } else { Presentation::rotating(gr, idx) };
                            let case = Case::new(gr.clone(), pres);
                            per_case(&case, idx, &mut acc);
                            acc.inc("grammars");
                        }
                        acc
                    })
                    .collect();
                (accs, json!({"neighbourhood_size": list.len(), "neighbourhood_capped_at": if was_capped { json!(cap) } else { Value::Null }}))
            }
            Spec::PSpace { max_fields, recursion } => {
                let mut pats = crate::pspace::patterns(*max_fields, *recursion);
                pats.extend(crate::pspace::long_patterns(crate::pspace::LONG_MAX));
                let accs: Vec<Acc> = pats
                    .par_chunks(32)
                    .enumerate()
                    .map(|(ci, chunk)| {
                        let mut acc = Acc::default();
                        for (j, p) in chunk.iter().enumerate() {
                            let (gr, pres, _) = crate::pspace::build(p);
                            let case = Case::new(gr, pres);
                            per_case(&case, ((ci * 32 + j) as u64) | (1 << 61), &mut acc);
                            acc.inc("grammars");
                        }
                        acc
                    })
                    .collect();
                (accs, json!({"patterns": pats.len()}))
            }
            Spec::Files { k, cap } => {
                let mut cases: Vec<Case> = vec![];
                let mut names = vec![];
                for (name, src) in crate::corpus::accepted_repo_sources() {
                    if let Some(c) = case_from_source(&src) {
                        names.push(name);
                        if *k > 0 {
                            let (list, _) = neighbourhood(&c.g, *k, *cap);
                            for (j, gr) in list.into_iter().enumerate().skip(1) {
                                // neighbours keep the seed's presentation where the production count allows it
                                let mut pres = c.pres.clone();
                                if gr.prods.len() != c.g.prods.len() || gr.prods.iter().zip(&c.g.prods).any(|(a, b)| a.0 != b.0 || a.1.len() != b.1.len()) {
                                    pres = Presentation::rotating(&gr, j as u64);
                                }
                                cases.push(Case::new(gr, pres));
                            }
                        }
                        cases.push(c);
                    }
                }
                let accs: Vec<Acc> = cases
                    .par_iter()
                    .enumerate()
                    .map(|(i, case)| {
                        let mut acc = Acc::default();
                        if over() {
                            capped.store(true, std::sync::atomic::Ordering::Relaxed);
                            return acc;
                        }
                        per_case(case, (i as u64) | (1 << 62), &mut acc);
                        acc.inc("grammars");
                        acc
                    })
                    .collect();
                (accs, json!({"files": names, "cases": cases.len()}))
            }
            Spec::Names { extra } => {
                let cases: Vec<Case> = crate::names::relation_sources(*extra).par_iter().filter_map(|s| case_from_source(s)).collect();
                let accs: Vec<Acc> = cases
                    .par_iter()
                    .enumerate()
                    .map(|(i, case)| {
                        let mut acc = Acc::default();
                        if over() {
                            capped.store(true, std::sync::atomic::Ordering::Relaxed);
                            return acc;
                        }
                        per_case(case, (i as u64) | (1 << 59), &mut acc);
                        acc.inc("grammars");
                        acc
                    })
                    .collect();
                (accs, json!({"valid_files_of_the_space": cases.len()}))
            }
            Spec::GP(sc) => {
                let rhss = all_rhs(sc.n, sc.t, sc.k);
                let tops = work_units(sc, 16);
                let accs: Vec<Acc> = tops
                    .par_iter()
                    .enumerate()
                    .map(|(ui, top)| {
                        let mut acc = Acc::default();
                        if over() {
                            capped.store(true, std::sync::atomic::Ordering::Relaxed);
                            return acc;
                        }
                        let mut idx = (ui as u64) << 32 | 1 << 57;
                        for_each_completion(sc, &rhss, top, &mut |gr| {
                            for_each_presentation(&gr, &mut |pres| {
                                let case = Case::new(gr.clone(), pres);
                                per_case(&case, idx, &mut acc);
                                acc.inc("grammars");
                                idx += 1;
                            });
                            acc.inc("grammars of the scope (each under all its presentations)");
                        });
                        acc
                    })
                    .collect();
                (accs, json!({"work_units": tops.len(), "raw_size_of_the_scope": scope_size(sc).to_string()}))
            }
            Spec::Scaled { deep } => {
                let fams = crate::scaled::families(*deep);
                let accs: Vec<Acc> = fams
                    .par_iter()
                    .enumerate()
                    .map(|(i, f)| {
                        let mut acc = Acc::default();
                        if over() {
                            capped.store(true, std::sync::atomic::Ordering::Relaxed);
                            return acc;
                        }
                        let case = Case::new(f.g.clone(), crate::scaled::presentation(f, i));
                        per_case(&case, (i as u64) | (1 << 58), &mut acc);
                        acc.inc("grammars");
                        acc
                    })
                    .collect();
                (accs, json!({"members": fams.iter().map(|f| f.name.clone()).collect::<Vec<_>>()}))
            }
        };
        let mut sacc = Acc::default();
        for a in accs {
            sacc.merge(a);
        }
        let n = sacc.get("grammars");
        grammars += n;
        let was_capped = capped.load(std::sync::atomic::Ordering::Relaxed);
        scopes.push(json!({
            "name": spec.name(), "size": n, "completed": !was_capped, "exhaustive": !was_capped,
            "capped_by": if was_capped { json!(format!("wall-clock budget {budget_s}s")) } else { Value::Null },
            "details": size_note, "wall_s": (t0.elapsed().as_secs_f64() * 100.0).round() / 100.0,
        }));
        total.merge(sacc);
    }
    SweepResult { acc: total, scopes, grammars }
}

// ---------------------------------------------------------------------------------------------
// Name mapping between kiki's view and the reference's view of a case

pub struct Mapping {
    /// kiki rule index -> reference production index
    pub rule: Vec<usize>,
}

impl Mapping {
    pub fn new(case: &Case) -> Mapping {
        Mapping { rule: kiki_rule_order(&case.g, &case.pres) }
    }
}

fn terminal_index(case: &Case, name: &str) -> Option<u8> {
    case.rendered.names.terminals.iter().position(|t| t == name).map(|i| i as u8)
}
fn nonterminal_index(case: &Case, name: &str) -> Option<u8> {
    case.rendered.names.nonterminals.iter().position(|t| t == name).map(|i| i as u8)
}

// ---------------------------------------------------------------------------------------------
// C04: verdict

pub fn c04_case(case: &Case, gen: &Gen, rf: &Reference, acc: &mut Acc) {
    let conflict = rf.lalr_tables.has_conflict();
    acc.inc(&format!("class: {}", rf.class.name()));
    if rf.has_epsilon {
        acc.inc("with epsilon rules");
    }
    if !rf.all_productive {
        acc.inc("with unproductive nonterminals");
    }
    if !rf.all_reachable {
        acc.inc("with unreachable nonterminals");
    }
    acc.inc(&format!("kiki outcome: {}", gen.class()));
    acc.add("automaton states compared", rf.lalr.states.len() as u64);
    let ok = match gen {
        Gen::Ok(_) => !conflict,
        Gen::Conflict(_) => conflict,
        _ => false,
    };
    if !ok {
        let expected = if conflict { "Err(TableConflict): the LALR(1) automaton has a conflict" } else { "Ok: the LALR(1) automaton is conflict-free" };
        acc.finding(Finding::new(
            "grammar_case",
            case.to_json(),
            format!("generate returned {} for a well-formed grammar whose reference verdict is {} [{}]", gen.describe(), if conflict { "conflict" } else { "conflict-free" }, rf.class.name()),
            json!(expected),
            json!(gen.describe()),
        ));
    }
}

// ---------------------------------------------------------------------------------------------
// C17: table isomorphism

pub struct Bound {
    pub ex: Extracted,
    /// action column -> terminal index (t = end of input)
    pub col: Vec<u8>,
    /// goto column -> nonterminal index
    pub gcol: Vec<u8>,
    /// emitted rule kind -> reference production
    pub rule: Vec<u16>,
}

/// Reads the emitted text and ties its names to the reference grammar. `Err` = the text could not be
/// understood (not a verdict by itself).
pub fn bind(case: &Case, text: &str) -> Result<Bound, String> {
    let ex = extract::extract(text)?;
    let mut col = vec![];
    for (i, nm) in ex.quasiterminal_kinds.iter().enumerate() {
        if i + 1 == ex.quasiterminal_kinds.len() {
            col.push(case.g.t as u8);
        } else {
            col.push(terminal_index(case, nm).ok_or(format!("action column {nm} is not a terminal"))?);
        }
    }
    let mut gcol = vec![];
    for nm in &ex.nonterminal_kinds {
        // (255: a column that no kind selects)
        gcol.push(if nm.is_empty() { 255 } else { nonterminal_index(case, nm).ok_or(format!("goto column {nm} is not a nonterminal"))? });
    }
    let mut rule = vec![];
    for r in &ex.reduce {
        let want: (String, Option<String>) = (r.constructor[0].clone(), r.constructor.get(1).cloned());
        let p = case.rendered.names.constructors.iter().position(|c| *c == want).ok_or(format!("reduce function {} builds {:?}, which is no declared constructor", r.name, r.constructor))?;
        rule.push(p as u16);
    }
    Ok(Bound { ex, col, gcol, rule })
}

/// Simultaneous traversal of emitted and reference tables. Returns a description of the first difference.
pub fn isomorphism(case: &Case, b: &Bound, rt: &Tables) -> Result<(usize, usize), String> {
    let ex = &b.ex;
    if ex.action.len() != rt.action.len() {
        return Err(format!("{} emitted states, the LALR(1) automaton has {}", ex.action.len(), rt.action.len()));
    }
    let t = case.g.t;
    if b.col.len() != t + 1 || b.gcol.len() != case.g.n {
        return Err("table widths do not match the grammar".into());
    }
    let mut map: BTreeMap<usize, usize> = BTreeMap::new();
    map.insert(ex.start, rt.start);
    let mut queue = VecDeque::from([ex.start]);
    let mut edges = 0usize;
    let mut link = |map: &mut BTreeMap<usize, usize>, queue: &mut VecDeque<usize>, k: usize, r: usize, what: &str| -> Result<(), String> {
        match map.get(&k) {
            Some(x) if *x != r => Err(format!("{what}: emitted state {k} corresponds to two reference states")),
            Some(_) => Ok(()),
            None => {
                map.insert(k, r);
                queue.push_back(k);
                Ok(())
            }
        }
    };
    while let Some(ka) = queue.pop_front() {
        let ra = map[&ka];
        for (ci, cell) in ex.action[ka].iter().enumerate() {
            edges += 1;
            let col = b.col[ci] as usize;
            let rc = &rt.action[ra][col];
            if rc.len() > 1 {
                return Err("the reference table has a conflict".into());
            }
            let colname = if col == t { "end of input".to_string() } else { format!("terminal {}", case.rendered.names.terminals[col]) };
            match (cell, rc.first()) {
                (Cell::Err, None) => {}
                (Cell::Accept, Some(Act::Accept)) => {}
                (Cell::Shift(k), Some(Act::Shift(r))) => link(&mut map, &mut queue, *k, *r, "shift")?,
                (Cell::Reduce(k), Some(Act::Reduce(p))) => {
                    let kp = *b.rule.get(*k).ok_or("reduce rule out of range")?;
                    if kp != *p {
                        return Err(format!("state {ka} on {colname}: emitted reduces by {:?}, LALR(1) reduces by {:?}", case.rendered.names.constructors[kp as usize], case.rendered.names.constructors[*p as usize]));
                    }
                }
                (c, r) => return Err(format!("state {ka} on {colname}: emitted {c:?}, LALR(1) says {r:?}")),
            }
        }
        // the goto function as `get_goto` computes it: the column selected by the nonterminal's kind
        for nt in 0..case.g.n {
            edges += 1;
            let cell: Option<usize> = b.gcol.iter().position(|c| *c as usize == nt).and_then(|gi| ex.goto[ka][gi]);
            match (cell, rt.goto[ra][nt]) {
                (None, None) => {}
                (Some(k), Some(r)) => link(&mut map, &mut queue, k, r, "goto")?,
                (c, r) => return Err(format!("state {ka} goto on {}: emitted {c:?}, LALR(1) says {r:?}", case.rendered.names.nonterminals[nt])),
            }
        }
    }
    if map.len() != ex.action.len() {
        return Err(format!("{} of {} emitted states are unreachable from the start state", ex.action.len() - map.len(), ex.action.len()));
    }
    let image: BTreeSet<usize> = map.values().copied().collect();
    if image.len() != map.len() {
        return Err("state correspondence is not injective".into());
    }
    Ok((map.len(), edges))
}

pub fn c17_case(case: &Case, gen: &Gen, rf: &Reference, acc: &mut Acc) {
    let Gen::Ok(text) = gen else {
        acc.inc("skipped: not accepted by generate (C04/C07 territory)");
        return;
    };
    if rf.lalr_tables.has_conflict() {
        // tables were emitted although the LALR(1) automaton has a conflict: whatever they are, they are not its tables
        acc.finding(Finding::new(
            "grammar_case",
            case.to_json(),
            format!("tables were emitted for a grammar whose LALR(1) automaton has a conflict (in {} state(s)): they cannot be the LALR(1) tables [{}]", rf.lalr_tables.conflict_states(), rf.class.name()),
            json!("no tables (the automaton has a conflict)"),
            json!("tables emitted"),
        ));
        return;
    }
    acc.inc(&format!("class: {}", rf.class.name()));
    let b = match bind(case, text) {
        Ok(b) => b,
        Err(e) => {
            acc.inc("emitted text not understood by the extractor");
            if acc.self_check_errors.len() < 3 {
                acc.self_check_errors.push(format!("extractor: {e}"));
            }
            return;
        }
    };
    match isomorphism(case, &b, &rf.lalr_tables) {
        Ok((states, edges)) => {
            acc.inc("isomorphic");
            acc.add("automaton states matched", states as u64);
            acc.add("table cells compared", edges as u64);
            acc.sample(|| json!({"source": case.rendered.source, "states": states, "cells": edges}));
        }
        Err(d) => acc.finding(Finding::new("grammar_case", case.to_json(), format!("emitted tables are not the LALR(1) tables: {d}"), json!("tables isomorphic to the reference LALR(1) tables"), json!(d))),
    }
}

// ---------------------------------------------------------------------------------------------
// C11: contents of a table-conflict error

fn kiki_item_to_ref(case: &Case, m: &Mapping, it: &kiki::data::machine::StateItem) -> Option<Item> {
    use kiki::data::machine::{Lookahead, RuleIndex};
    let prod = match it.rule_index {
        RuleIndex::Augmented => AUG,
        RuleIndex::Original(i) => *m.rule.get(i)? as u16,
    };
    let la = match &it.lookahead {
        Lookahead::Eof => case.g.t as u8,
        Lookahead::Terminal(t) => terminal_index(case, t.raw())?,
    };
    if it.dot > 255 {
        return None;
    }
    Some(item(prod, it.dot as u16, la))
}

pub fn c11_problems(case: &Case, e: &kiki::TableConflictErr, rf: &Reference) -> Vec<String> {
    let m = Mapping::new(case);
    let a = Analysis::new(&case.g);
    let mut errs = vec![];
    let n_states = e.machine.states.len();
    // the attached automaton, in reference terms
    let mut kstates: Vec<Vec<Item>> = vec![];
    for st in e.machine.states.iter() {
        let mut v = vec![];
        for it in st.items.iter() {
            match kiki_item_to_ref(case, &m, it) {
                Some(x) => v.push(x),
                None => errs.push("the attached automaton contains an item that does not belong to the grammar".to_string()),
            }
        }
        v.sort();
        kstates.push(v);
    }
    if !errs.is_empty() {
        return errs;
    }
    if e.state_index.0 >= n_states {
        errs.push(format!("state_index {} is not a state of the attached automaton ({} states)", e.state_index.0, n_states));
    } else {
        let st = &kstates[e.state_index.0];
        let i1 = kiki_item_to_ref(case, &m, &e.items.0);
        let i2 = kiki_item_to_ref(case, &m, &e.items.1);
        match (i1, i2) {
            (Some(i1), Some(i2)) => {
                if !st.contains(&i1) || !st.contains(&i2) {
                    errs.push(format!("reported items are not both members of state {}", e.state_index.0));
                }
                // demanded actions: shift targets are compared only by kind (shift vs reduce vs accept)
                let demand = |it: Item| -> Option<(u8, u8, u16)> {
                    let rhs = a.rhs(item_prod(it));
                    let d = item_dot(it) as usize;
                    if d == rhs.len() {
                        Some((item_la(it), if item_prod(it) == AUG { 2 } else { 1 }, item_prod(it)))
                    } else if let Sym::T(x) = rhs[d] {
                        Some((x, 0, 0))
                    } else {
                        None
                    }
                };
                match (demand(i1), demand(i2)) {
                    (Some(d1), Some(d2)) => {
                        if d1.0 != d2.0 {
                            errs.push("the two items demand actions on different lookaheads".to_string());
                        } else if (d1.1, d1.2) == (d2.1, d2.2) {
                            errs.push("the two items demand the same action".to_string());
                        }
                    }
                    _ => errs.push("a reported item demands no action (dot before a nonterminal)".to_string()),
                }
            }
            _ => errs.push("a reported item does not belong to the grammar".to_string()),
        }
    }
    // automaton = reference LALR(1) automaton up to renumbering (cores are unique per state)
    let ref_index: BTreeMap<&Vec<Item>, usize> = rf.lalr.states.iter().enumerate().map(|(i, s)| (s, i)).collect();
    let mut map = vec![];
    let mut states_equal = kstates.len() == rf.lalr.states.len();
    for ks in &kstates {
        match ref_index.get(ks) {
            Some(i) => map.push(*i),
            None => {
                states_equal = false;
                break;
            }
        }
    }
    if states_equal && map.iter().collect::<BTreeSet<_>>().len() != map.len() {
        states_equal = false;
    }
    if !states_equal {
        errs.push(format!("the attached automaton's states (cores + lookahead sets) are not those of the LALR(1) automaton ({} vs {} states)", kstates.len(), rf.lalr.states.len()));
    } else {
        let mut ktrans: BTreeSet<(usize, Sym, usize)> = BTreeSet::new();
        let mut bad_symbol = false;
        for tr in e.machine.transitions.iter() {
            let sym = match &tr.symbol {
                kiki::Symbol::Terminal(t) => terminal_index(case, t.raw()).map(Sym::T),
                kiki::Symbol::Nonterminal(n) => nonterminal_index(case, n).map(Sym::N),
            };
            match sym {
                Some(s) if tr.from.0 < map.len() && tr.to.0 < map.len() => {
                    ktrans.insert((map[tr.from.0], s, map[tr.to.0]));
                }
                _ => bad_symbol = true,
            }
        }
        let mut rtrans: BTreeSet<(usize, Sym, usize)> = BTreeSet::new();
        for (s, tr) in rf.lalr.trans.iter().enumerate() {
            for (sym, t) in tr {
                rtrans.insert((s, *sym, *t));
            }
        }
        if bad_symbol || ktrans != rtrans {
            errs.push("the attached automaton's transitions differ from the LALR(1) automaton's".to_string());
        }
        if e.machine.start.0 >= map.len() || map[e.machine.start.0] != rf.lalr.start {
            errs.push("the attached automaton's start state is not the closure of the augmented item".to_string());
        }
    }
    // attached file = the input grammar
    let f = &e.file;
    let want_nts: Vec<String> = case.pres.decl_order.iter().map(|i| case.rendered.names.nonterminals[*i as usize].clone()).collect();
    let got_nts: Vec<String> = f.nonterminals.iter().map(|n| n.name().to_string()).collect();
    let got_ts: Vec<String> = f.terminal_enum.variants.iter().map(|v| v.dollarless_name.raw().to_string()).collect();
    if f.start != case.rendered.names.nonterminals[0] || got_nts != want_nts || got_ts != case.rendered.names.terminals || f.terminal_enum.name != case.rendered.names.terminal_enum {
        errs.push("the attached grammar's start symbol, nonterminals or terminals differ from the input".to_string());
    } else {
        let rules: Vec<kiki::data::validated_file::Rule> = f.get_rules().collect();
        if rules.len() != m.rule.len() {
            errs.push("the attached grammar has a different number of rules".to_string());
        } else {
            for (ki, r) in rules.iter().enumerate() {
                let p = m.rule[ki];
                let (lhs, rhs) = &case.g.prods[p];
                let mut ok = r.constructor_name.type_name() == case.rendered.names.nonterminals[*lhs as usize] && r.fieldset.len() == rhs.len();
                if ok {
                    for (i, s) in rhs.iter().enumerate() {
                        let sym: kiki::Symbol = r.fieldset.get_symbol_ident(i).clone().into();
                        let same = match (s, &sym) {
                            (Sym::N(b), kiki::Symbol::Nonterminal(n)) => *n == case.rendered.names.nonterminals[*b as usize],
                            (Sym::T(b), kiki::Symbol::Terminal(t)) => t.raw() == case.rendered.names.terminals[*b as usize],
                            _ => false,
                        };
                        ok &= same;
                    }
                }
                if !ok {
                    errs.push(format!("rule {ki} of the attached grammar differs from the input"));
                    break;
                }
            }
        }
    }
    errs
}

pub fn c11_case(case: &Case, gen: &Gen, rf: &Reference, acc: &mut Acc) {
    let Gen::Conflict(e) = gen else {
        acc.inc("skipped: no table-conflict error");
        return;
    };
    acc.inc("conflict errors examined");
    acc.inc(&format!("reference conflict states: {}", rf.lalr_tables.conflict_states().min(3)));
    acc.add("automaton states compared", e.machine.states.len() as u64);
    acc.add("transitions compared", e.machine.transitions.len() as u64);
    let errs = match catch(|| c11_problems(case, e, rf)) {
        Ok(v) => v,
        Err(p) => vec![format!("inspecting the error's public fields panicked: {p}")],
    };
    if errs.is_empty() {
        acc.sample(|| json!({"source": case.rendered.source, "state_index": e.state_index.0, "items": format!("{:?}", e.items)}));
    } else {
        acc.finding(Finding::new("grammar_case", case.to_json(), format!("table-conflict error is not truthful: {}", errs.join("; ")), json!("state index valid, both items in that state demanding different actions on one lookahead, attached grammar = input, attached automaton = LALR(1) automaton"), json!(errs)));
    }
}

// ---------------------------------------------------------------------------------------------
// C07(d): totality on well-formed grammars

pub fn c07_case(case: &Case, gen: &Gen, acc: &mut Acc) {
    acc.inc(&format!("kiki outcome: {}", gen.class()));
    if let Gen::Panic(p) = gen {
        acc.finding(Finding::new("source_total", json!({"source": case.rendered.source}), format!("generate panicked on a well-formed grammar: {}", normalize_panic(p)), json!("Ok or Err"), json!(format!("panic: {}", normalize_panic(p)))));
    }
}

// ---------------------------------------------------------------------------------------------
// Running the checks

pub fn reference_or_note(case: &Case, acc: &mut Acc) -> Option<Reference> {
    match reference(&case.g) {
        Ok(r) => Some(r),
        Err(e) => {
            acc.self_check_errors.push(e);
            None
        }
    }
}

fn specs_for(tier: Tier) -> Vec<Spec> {
    match tier {
        Tier::Quick => {
            let mut v = vec![g(2, 2, 3, 3), g(2, 0, 3, 3), g(2, 1, 3, 3), g(1, 3, 3, 2), Spec::Files { k: 1, cap: 250 }, Spec::Names { extra: 2 }, Spec::Scaled { deep: false }, Spec::GP(Scope { n: 2, t: 1, p: 2, k: 2, symmetry: false, only_cyclic: false }), Spec::GP(Scope { n: 1, t: 2, p: 2, k: 2, symmetry: false, only_cyclic: false })];
            v.extend(all_seed_nbh(1, 1, 100_000));
            v
        }
        Tier::Thorough => {
            let mut v = vec![g(2, 2, 3, 3), g(2, 3, 4, 2), g(3, 2, 4, 2), gsym(2, 2, 4, 3), g(1, 3, 4, 3), gsym(3, 3, 3, 2), Spec::Files { k: 1, cap: 3000 }, Spec::Names { extra: 3 }, Spec::Scaled { deep: true }, Spec::GP(Scope { n: 2, t: 1, p: 2, k: 2, symmetry: false, only_cyclic: false }), Spec::GP(Scope { n: 1, t: 2, p: 2, k: 2, symmetry: false, only_cyclic: false }), Spec::GP(Scope { n: 2, t: 2, p: 2, k: 2, symmetry: true, only_cyclic: false })];
            v.extend(all_seed_nbh(2, 1, 60_000));
            v
        }
    }
}

fn finish(ctx: &Ctx, out: &mut Outcome, res: SweepResult, states_key: &str, transitions_key: &str) {
    if !res.acc.self_check_errors.is_empty() && res.acc.self_check_errors.iter().any(|e| e.starts_with("reference self-check")) {
        machinery_error(format!("{}: {}", ctx.id, res.acc.self_check_errors[0]));
    }
    let acc = res.acc;
    let exhaustive = res.scopes.iter().all(|s| s["completed"].as_bool().unwrap_or(false));
    out.cov("states", json!(acc.get(states_key).max(1)));
    out.cov("transitions", json!(acc.get(transitions_key).max(1)));
    out.cov("grammars", json!(res.grammars));
    out.cov("scopes", json!(res.scopes));
    out.cov("exhaustive", json!(exhaustive));
    out.cov("histogram", json!(acc.counters));
    out.cov("maxima", json!(acc.maxima));
    out.cov("notes", json!(acc.self_check_errors));
    out.cov("samples", json!(if acc.samples.is_empty() { vec![json!("no sample recorded")] } else { acc.samples.clone() }));
    out.violating_cases = acc.violating;
    out.findings = acc.findings;
}

pub fn run_c04(ctx: &Ctx) -> Outcome {
    let mut out = Outcome::new("model_checking");
    let res = sweep(&specs_for(ctx.tier), ctx.tier.pick(300.0, 3000.0), &|case, _idx, acc| {
        let gen = generate(&case.rendered.source);
        if let Some(rf) = reference_or_note(case, acc) {
            c04_case(case, &gen, &rf, acc);
            acc.sample(|| json!({"source": case.rendered.source, "class": rf.class.name(), "kiki": gen.class()}));
        }
    });
    // every accept/reject decision is one execution of the real generate compared with the reference
    let n = res.grammars;
    finish(ctx, &mut out, res, "grammars", "automaton states compared");
    out.cov("traces_validated_against_impl", json!(n));
    out.cov("explanation", json!("states = grammars explored (each one execution of the real generate), transitions = reference LALR(1) automaton states whose action cells decide the verdict; the reference (canonical LR(1) merged by core) is cross-checked on every grammar against LR(0)+lookahead propagation where the two definitions coincide"));
    out.assumptions = vec!["reference: canonical LR(1) merged by core; names are opaque to kiki (hygiene is C05's business)".into()];
    out
}

pub fn run_c17(ctx: &Ctx) -> Outcome {
    let mut out = Outcome::new("model_checking");
    let res = sweep(&specs_for(ctx.tier), ctx.tier.pick(300.0, 3000.0), &|case, _idx, acc| {
        let gen = generate(&case.rendered.source);
        if let Some(rf) = reference_or_note(case, acc) {
            c17_case(case, &gen, &rf, acc);
        }
    });
    let not_understood = res.acc.get("emitted text not understood by the extractor");
    let iso = res.acc.get("isomorphic");
    if not_understood > 0 && iso == 0 {
        machinery_error(format!("C17: the extractor understands none of the emitted texts ({:?}); the tables cannot be observed", res.acc.self_check_errors.first()));
    }
    finish(ctx, &mut out, res, "automaton states matched", "table cells compared");
    out.cov("traces_validated_against_impl", json!(iso));
    out.cov("explanation", json!("states = automaton states put in bijection with the reference LALR(1) automaton, transitions = ACTION/GOTO cells compared under the bijection; tables are read from the text the real generate emitted; rule identity comes from the constructor named in each emitted reduce function"));
    if not_understood > 0 && out.findings.is_empty() {
        // being unable to read some texts is no evidence against the property: a machinery exit, never a verdict
        // (violations found in the texts that could be read are reported as such)
        machinery_error(format!("C17: {not_understood} emitted texts could not be read by the extractor while {iso} could"));
    }
    out
}

pub fn run_c11(ctx: &Ctx) -> Outcome {
    let mut out = Outcome::new("model_checking");
    let res = sweep(&specs_for(ctx.tier), ctx.tier.pick(300.0, 3000.0), &|case, _idx, acc| {
        let gen = generate(&case.rendered.source);
        if matches!(gen, Gen::Conflict(_)) {
            if let Some(rf) = reference_or_note(case, acc) {
                c11_case(case, &gen, &rf, acc);
            }
        } else {
            acc.inc("skipped: no table-conflict error");
        }
    });
    let n = res.acc.get("conflict errors examined");
    finish(ctx, &mut out, res, "automaton states compared", "transitions compared");
    out.cov("traces_validated_against_impl", json!(n));
    out.cov("explanation", json!("states / transitions = states and transitions of the automata attached to the conflict errors, each compared with the reference LALR(1) automaton; every error comes from an execution of the real generate"));
    out
}

pub fn replay(property: &str, kind: &str, case: &Value) -> Option<Vec<Finding>> {
    if kind == "source_total" {
        let src = case["source"].as_str()?;
        let gen = generate(src);
        if let Gen::Panic(p) = gen {
            return Some(vec![Finding::new("source_total", case.clone(), format!("generate panicked: {}", normalize_panic(&p)), json!("Ok or Err"), json!(format!("panic: {}", normalize_panic(&p))))]);
        }
        return Some(vec![]);
    }
    if kind == "real_case" {
        return crate::reallayer::replay(property, case);
    }
    if kind != "grammar_case" {
        return None;
    }
    let c = Case::from_json(case)?;
    let mut acc = Acc::default();
    let gen = generate(&c.rendered.source);
    let rf = reference(&c.g).ok()?;
    match property {
        "C04" => c04_case(&c, &gen, &rf, &mut acc),
        "C17" => c17_case(&c, &gen, &rf, &mut acc),
        "C11" => c11_case(&c, &gen, &rf, &mut acc),
        "C01" | "C03" => {
            // deep enough for the recorded word (the scaled families explore far deeper than the small scopes)
            let depth = case["word_indices"].as_array().map(|w| w.len()).unwrap_or(0).max(c.pres.names.get("depth").and_then(|d| d.parse().ok()).unwrap_or(0)).max(8);
            crate::pda::model_case(&c, &gen, &rf, property, &mut acc, depth)
        }
        _ => return None,
    }
    Some(acc.findings)
}

// ---------------------------------------------------------------------------------------------
// Cases derived from arbitrary (valid) Kiki sources through the reference front end

/// Builds a case (abstract grammar + presentation reproducing the names, fieldset styles, declaration
/// order, attributes and payload types) from a source text that the reference front end accepts and
/// the reference validator finds no violation in.
pub fn case_from_source(src: &str) -> Option<Case> {
    use crate::reffront::*;
    let (file, _) = parse_source(src).ok()?;
    if !violations(&file).is_empty() {
        return None;
    }
    let start = file.items.iter().find_map(|i| if let RItem::Start(n) = i { Some(n.name.clone()) } else { None })?;
    // nonterminals in declaration order; index 0 is the start symbol
    let declared: Vec<&RItem> = file.items.iter().filter(|i| matches!(i, RItem::Struct { .. } | RItem::Enum { .. })).collect();
    let name_of = |i: &RItem| match i {
        RItem::Struct { name, .. } | RItem::Enum { name, .. } => name.name.clone(),
        _ => String::new(),
    };
    let mut order: Vec<usize> = (0..declared.len()).collect(); // index -> position in `declared`
    let spos = declared.iter().position(|d| name_of(d) == start)?;
    order.remove(spos);
    order.insert(0, spos);
    let index_of_name = |n: &str| order.iter().position(|p| name_of(declared[*p]) == n);
    let (tok_name, terminals, tok_attrs) = file.items.iter().find_map(|i| if let RItem::Terminal { name, variants, attrs } = i { Some((name.name.clone(), variants.clone(), attrs.clone())) } else { None })?;
    let t_index = |n: &str| terminals.iter().position(|t| t.name.name == n);
    let mut prods: Vec<(u8, Vec<Sym>)> = vec![];
    let mut pres = Presentation { decl_order: vec![], single_as_struct: vec![false; declared.len()], styles: vec![], layout: 0, naming: 0, attribute: String::new(), payload: "()".into(), names: Default::default() };
    // declaration order in terms of indices
    for dpos in 0..declared.len() {
        pres.decl_order.push(order.iter().position(|p| *p == dpos)? as u8);
    }
    for (idx, dpos) in order.iter().enumerate() {
        let item = declared[*dpos];
        pres.names.insert(format!("n{idx}"), name_of(item));
        let mut add_prod = |fs: &RFieldset, variant: Option<&str>, prods: &mut Vec<(u8, Vec<Sym>)>, pres: &mut Presentation| -> Option<()> {
            let pi = prods.len();
            let mut rhs = vec![];
            let mut mask = 0u32;
            for (j, f) in fs.fields().iter().enumerate() {
                rhs.push(if f.sym.terminal { Sym::T(t_index(&f.sym.name)? as u8) } else { Sym::N(index_of_name(&f.sym.name)? as u8) });
                if f.skipped {
                    if j >= 32 {
                        return None; // the mask of a Presentation repeats after 32 positions: not representable
                    }
                    mask |= 1 << j;
                }
                if let Some(n) = &f.name {
                    pres.names.insert(format!("f{pi}_{j}"), n.name.clone());
                }
            }
            if rhs.len() > 30 {
                return None;
            }
            pres.styles.push(ProdStyle { named: matches!(fs, RFieldset::Named(_)), skip_mask: mask });
            if let Some(v) = variant {
                pres.names.insert(format!("v{pi}"), v.to_string());
            }
            prods.push((idx as u8, rhs));
            Some(())
        };
        match item {
            RItem::Struct { fieldset, attrs, .. } => {
                pres.single_as_struct[idx] = true;
                add_prod(fieldset, None, &mut prods, &mut pres)?;
                if !attrs.is_empty() {
                    pres.names.insert(format!("a{idx}"), attrs.join("\n"));
                }
            }
            RItem::Enum { variants, attrs, .. } => {
                for v in variants {
                    add_prod(&v.fieldset, Some(&v.name.name), &mut prods, &mut pres)?;
                }
                if !attrs.is_empty() {
                    pres.names.insert(format!("a{idx}"), attrs.join("\n"));
                }
            }
            _ => {}
        }
    }
    pres.names.insert("tok".into(), tok_name);
    if !tok_attrs.is_empty() {
        pres.names.insert("atok".into(), tok_attrs.join("\n"));
    }
    for (i, t) in terminals.iter().enumerate() {
        pres.names.insert(format!("t{i}"), t.name.name.clone());
        pres.names.insert(format!("p{i}"), t.ty.tokens().join(" ").replace(" :: ", "::").replace(" , ", ", ").replace("< ", "<").replace(" >", ">").replace(" <", "<").replace("( )", "()"));
    }
    if terminals.len() > 60 || declared.len() > 200 {
        return None;
    }
    let g = Grammar { n: declared.len(), t: terminals.len(), prods };
    let case = Case::new(g, pres);
    // the re-rendered source must describe the same grammar: parse it back and compare the abstract grammar
    let (file2, _) = parse_source(&case.rendered.source).ok()?;
    if !violations(&file2).is_empty() {
        return None;
    }
    Some(case)
}
