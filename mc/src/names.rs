//! The name-relation space: every ordered pair of identifiers from a small closed name set, placed in
//! every pair of roles of one fixed grammar. The name sets are closed under the string relations a
//! lookup by name can get wrong: proper prefix / proper suffix of one another, equal up to case, equal up
//! to an underscore or a digit, equal (where the language allows it, e.g. a variant named like a
//! nonterminal), one a snake-case / Pascal-case image of the other.
//!
//! The grammar (LALR(1), every terminal and nonterminal used in a tuple field, a named field, a struct
//! and an enum variant; the two terminals have different payload types):
//!
//! ```text
//! start N1
//! enum N1 { V1(N2 $T1)  V2 { f1: $T2  f2: N1 }  V3 }
//! struct N2 { f1: $T1  f2: $T2 }
//! terminal Tok { $T1: crate::P  $T2: Option<crate::P> }
//! ```

#[derive(Clone, Copy, PartialEq, Eq, Debug)]
pub enum Role {
    N1,
    N2,
    V1,
    V2,
    V3,
    T1,
    T2,
    Tok,
    F1,
    F2,
}

impl Role {
    pub fn is_field(self) -> bool {
        matches!(self, Role::F1 | Role::F2)
    }
    fn default_name(self) -> &'static str {
        match self {
            Role::N1 => "Qna",
            Role::N2 => "Qnb",
            Role::V1 => "Qva",
            Role::V2 => "Qvb",
            Role::V3 => "Qvc",
            Role::T1 => "Qta",
            Role::T2 => "Qtb",
            Role::Tok => "Qtok",
            Role::F1 => "qfa",
            Role::F2 => "qfb",
        }
    }
}

pub const ROLE_PAIRS: [(Role, Role); 16] = [
    (Role::T1, Role::T2),
    (Role::N1, Role::N2),
    (Role::T1, Role::N2),
    (Role::T2, Role::N1),
    (Role::V1, Role::V2),
    (Role::V1, Role::V3),
    (Role::V1, Role::N2),
    (Role::V2, Role::T1),
    (Role::Tok, Role::N1),
    (Role::Tok, Role::T2),
    (Role::Tok, Role::V1),
    (Role::F1, Role::F2),
    (Role::F1, Role::T1),
    (Role::F2, Role::N2),
    (Role::F1, Role::V2),
    (Role::F2, Role::T2),
];

/// `first` followed by at most `extra` characters over {b, B, _, 1}.
pub fn name_set(first: char, extra: usize) -> Vec<String> {
    let mut out = vec![];
    let mut level = vec![first.to_string()];
    for d in 0..=extra {
        out.extend(level.iter().cloned());
        if d < extra {
            let mut next = vec![];
            for s in &level {
                for c in ['b', 'B', '_', '1'] {
                    next.push(format!("{s}{c}"));
                }
            }
            level = next;
        }
    }
    out
}

pub fn render(assign: &[(Role, &str)]) -> String {
    let n = |r: Role| -> String { assign.iter().find(|(x, _)| *x == r).map(|(_, s)| s.to_string()).unwrap_or_else(|| r.default_name().to_string()) };
    format!(
        "start {n1}\nenum {n1} {{\n    {v1}({n2} ${t1})\n    {v2} {{\n        {f1}: ${t2}\n        {f2}: {n1}\n    }}\n    {v3}\n}}\nstruct {n2} {{\n    {f1}: ${t1}\n    {f2}: ${t2}\n}}\nterminal {tok} {{\n    ${t1}: crate::P\n    ${t2}: Option<crate::P>\n}}\n",
        n1 = n(Role::N1),
        n2 = n(Role::N2),
        v1 = n(Role::V1),
        v2 = n(Role::V2),
        v3 = n(Role::V3),
        t1 = n(Role::T1),
        t2 = n(Role::T2),
        tok = n(Role::Tok),
        f1 = n(Role::F1),
        f2 = n(Role::F2),
    )
}

pub struct NameCase {
    pub label: String,
    pub source: String,
    /// two equal field names in one fieldset: outside the precondition of C05 (kiki does not check it)
    pub duplicate_fields: bool,
}

/// All ordered pairs of names (from the set of the role's kind) in all role pairs.
pub fn relation_cases(extra: usize) -> Vec<NameCase> {
    let upper = name_set('A', extra);
    let lower = name_set('a', extra);
    let mut out = vec![];
    for (ra, rb) in ROLE_PAIRS {
        let sa = if ra.is_field() { &lower } else { &upper };
        let sb = if rb.is_field() { &lower } else { &upper };
        for x in sa {
            for y in sb {
                out.push(NameCase { label: format!("{ra:?}={x},{rb:?}={y}"), source: render(&[(ra, x), (rb, y)]), duplicate_fields: ra.is_field() && rb.is_field() && x == y });
            }
        }
    }
    // whatever the length bound: every pair of terminal names with one snake-case form
    let have: std::collections::BTreeSet<String> = out.iter().map(|c| c.source.clone()).collect();
    out.extend(snake_collision_cases().into_iter().filter(|c| !have.contains(&c.source)));
    out
}

fn snake(name: &str) -> String {
    let mut out = String::new();
    for (i, c) in name.chars().enumerate() {
        if i > 0 && c.is_uppercase() {
            out.push('_');
        }
        out.push(c.to_ascii_lowercase());
    }
    out
}

/// Pairs of different terminal names (up to 4 characters) whose snake-case forms coincide (`AB` / `A_b`): the
/// emitted helper methods `try_into_<snake>_<index>` differ only in their index.
pub fn snake_collision_cases() -> Vec<NameCase> {
    let set = name_set('A', 3);
    let mut out = vec![];
    for x in &set {
        for y in &set {
            if x != y && snake(x) == snake(y) {
                out.push(NameCase { label: format!("T1={x},T2={y} (same snake-case form)"), source: render(&[(Role::T1, x), (Role::T2, y)]), duplicate_fields: false });
            }
        }
    }
    out
}

pub fn relation_sources(extra: usize) -> Vec<String> {
    relation_cases(extra).into_iter().map(|c| c.source).collect()
}
