//! Program scopes: G(N,T,P,K) (all grammars within a size bound) and Nbh(seed,k)
//! (all grammars within k edits of a seed), plus presentations (how an abstract grammar is spelt in Kiki).

use crate::refgram::{Grammar, Sym};
use std::collections::BTreeSet;

/// All right-hand sides of length <= k over n nonterminals and t terminals, shortest first.
pub fn all_rhs(n: usize, t: usize, k: usize) -> Vec<Vec<Sym>> {
    let syms: Vec<Sym> = (0..n).map(|i| Sym::N(i as u8)).chain((0..t).map(|j| Sym::T(j as u8))).collect();
    let mut out: Vec<Vec<Sym>> = vec![vec![]];
    let mut level: Vec<Vec<Sym>> = vec![vec![]];
    for _ in 0..k {
        let mut next = vec![];
        for r in &level {
            for s in &syms {
                let mut x = r.clone();
                x.push(*s);
                next.push(x);
            }
        }
        out.extend(next.iter().cloned());
        level = next;
    }
    out
}

fn combinations(n: usize, k: usize) -> Vec<Vec<usize>> {
    let mut out = vec![];
    let mut cur = vec![];
    fn rec(start: usize, n: usize, k: usize, cur: &mut Vec<usize>, out: &mut Vec<Vec<usize>>) {
        if cur.len() == k {
            out.push(cur.clone());
            return;
        }
        for i in start..n {
            cur.push(i);
            rec(i + 1, n, k, cur, out);
            cur.pop();
        }
    }
    rec(0, n, k, &mut cur, &mut out);
    out
}

#[derive(Clone, Copy, Debug, PartialEq, Eq)]
pub struct Scope {
    pub n: usize,
    pub t: usize,
    pub p: usize,
    pub k: usize,
    /// keep only one representative per renaming of terminals and non-start nonterminals
    pub symmetry: bool,
    /// keep only grammars with a derivation cycle A =>+ A (the class of the known finding D12)
    pub only_cyclic: bool,
}

impl Scope {
    pub fn name(&self) -> String {
        format!("G({},{},{},{}){}{}", self.n, self.t, self.p, self.k, if self.symmetry { "/sym" } else { "" }, if self.only_cyclic { "/cyclic" } else { "" })
    }
}

fn binom(n: usize, k: usize) -> u128 {
    let mut r: u128 = 1;
    for i in 0..k {
        r = r * (n - i) as u128 / (i + 1) as u128;
    }
    r
}

/// Number of ways to complete nonterminals `j..n` with at most `left` productions in total.
fn completions(sc: &Scope, r: usize, j: usize, left: usize) -> u128 {
    if j == sc.n {
        return 1;
    }
    (0..=left.min(r)).map(|p| binom(r, p) * completions(sc, r, j + 1, left - p)).sum()
}

/// Raw size of the scope (before symmetry reduction).
pub fn scope_size(sc: &Scope) -> u128 {
    completions(sc, all_rhs(sc.n, sc.t, sc.k).len(), 0, sc.p)
}

/// Units of parallel work: the production sets of the first few nonterminals are fixed in each unit.
/// Units whose subtree is large are split further, so no unit holds more than ~`max_unit` grammars
/// (unless all nonterminals are already fixed).
pub fn work_units(sc: &Scope, max_unit: u128) -> Vec<Vec<Vec<usize>>> {
    let r = all_rhs(sc.n, sc.t, sc.k).len();
    let mut out: Vec<Vec<Vec<usize>>> = vec![];
    fn rec(sc: &Scope, r: usize, max_unit: u128, fixed: &mut Vec<Vec<usize>>, left: usize, out: &mut Vec<Vec<Vec<usize>>>) {
        let j = fixed.len();
        if j >= 1 && (j == sc.n || completions(sc, r, j, left) <= max_unit) {
            out.push(fixed.clone());
            return;
        }
        for p in 0..=left.min(r) {
            for combo in combinations(r, p) {
                fixed.push(combo);
                rec(sc, r, max_unit, fixed, left - p, out);
                fixed.pop();
            }
        }
    }
    rec(sc, r, max_unit, &mut vec![], sc.p, &mut out);
    out
}

/// Calls `f` for every grammar of the scope whose first nonterminals have the production sets `fixed`.
pub fn for_each_completion(sc: &Scope, rhss: &[Vec<Sym>], fixed: &[Vec<usize>], f: &mut dyn FnMut(Grammar)) {
    fn rec(sc: &Scope, rhss: &[Vec<Sym>], nt: usize, left: usize, acc: &mut Vec<(u8, Vec<Sym>)>, f: &mut dyn FnMut(Grammar)) {
        if nt == sc.n {
            let g = Grammar { n: sc.n, t: sc.t, prods: acc.clone() };
            if (!sc.symmetry || is_canonical(&g)) && (!sc.only_cyclic || crate::refgram::has_derivation_cycle(&g)) {
                f(g);
            }
            return;
        }
        for p in 0..=left.min(rhss.len()) {
            for combo in combinations(rhss.len(), p) {
                let len = acc.len();
                for c in &combo {
                    acc.push((nt as u8, rhss[*c].clone()));
                }
                rec(sc, rhss, nt + 1, left - p, acc, f);
                acc.truncate(len);
            }
        }
    }
    let mut acc: Vec<(u8, Vec<Sym>)> = vec![];
    for (nt, combo) in fixed.iter().enumerate() {
        for c in combo {
            acc.push((nt as u8, rhss[*c].clone()));
        }
    }
    if acc.len() > sc.p {
        return;
    }
    let left = sc.p - acc.len();
    rec(sc, rhss, fixed.len(), left, &mut acc, f);
}

fn permutations(n: usize) -> Vec<Vec<u8>> {
    let mut out = vec![];
    let mut cur: Vec<u8> = (0..n as u8).collect();
    fn heap(k: usize, cur: &mut Vec<u8>, out: &mut Vec<Vec<u8>>) {
        if k <= 1 {
            out.push(cur.clone());
            return;
        }
        for i in 0..k {
            heap(k - 1, cur, out);
            if k % 2 == 0 {
                cur.swap(i, k - 1);
            } else {
                cur.swap(0, k - 1);
            }
        }
    }
    heap(n, &mut cur, &mut out);
    out.sort();
    out
}

/// Normal form of a grammar as a production *set*: sorted by (lhs, rhs).
pub fn normalize(g: &Grammar) -> Grammar {
    let mut prods = g.prods.clone();
    prods.sort();
    prods.dedup();
    Grammar { n: g.n, t: g.t, prods }
}

fn rename(g: &Grammar, np: &[u8], tp: &[u8]) -> Grammar {
    let prods = g
        .prods
        .iter()
        .map(|(l, r)| {
            (
                np[*l as usize],
                r.iter()
                    .map(|s| match s {
                        Sym::N(b) => Sym::N(np[*b as usize]),
                        Sym::T(b) => Sym::T(tp[*b as usize]),
                    })
                    .collect(),
            )
        })
        .collect();
    normalize(&Grammar { n: g.n, t: g.t, prods })
}

/// True if `g` is the least grammar among its renamings (terminals freely, nonterminals except the start symbol).
pub fn is_canonical(g: &Grammar) -> bool {
    let me = normalize(g);
    let nperms: Vec<Vec<u8>> = permutations(g.n.saturating_sub(1)).into_iter().map(|p| std::iter::once(0u8).chain(p.into_iter().map(|x| x + 1)).collect()).collect();
    let tperms = permutations(g.t);
    for np in &nperms {
        for tp in &tperms {
            if rename(g, np, tp) < me {
                return false;
            }
        }
    }
    true
}

// ---------------------------------------------------------------------------------------------
// Seeds and neighbourhoods

pub fn n(i: u8) -> Sym {
    Sym::N(i)
}
pub fn t(i: u8) -> Sym {
    Sym::T(i)
}

pub fn seeds() -> Vec<(&'static str, Grammar)> {
    let g = |n_: usize, t_: usize, prods: Vec<(u8, Vec<Sym>)>| Grammar { n: n_, t: t_, prods };
    vec![
        ("parens", g(1, 2, vec![(0, vec![]), (0, vec![t(0), n(0), t(1)])])),
        ("expr", g(3, 5, vec![(0, vec![n(0), t(0), n(1)]), (0, vec![n(1)]), (1, vec![n(1), t(1), n(2)]), (1, vec![n(2)]), (2, vec![t(2), n(0), t(3)]), (2, vec![t(4)])])),
        ("lalr-not-slr", g(3, 3, vec![(0, vec![n(1), t(0), n(2)]), (0, vec![n(2)]), (1, vec![t(1), n(2)]), (1, vec![t(2)]), (2, vec![n(1)])])),
        ("lr1-not-lalr", g(3, 5, vec![(0, vec![t(0), n(1), t(3)]), (0, vec![t(1), n(2), t(3)]), (0, vec![t(0), n(2), t(4)]), (0, vec![t(1), n(1), t(4)]), (1, vec![t(2)]), (2, vec![t(2)])])),
        ("dangling-else", g(1, 3, vec![(0, vec![t(0), n(0)]), (0, vec![t(0), n(0), t(1), n(0)]), (0, vec![t(2)])])),
        ("eps-middle", g(2, 3, vec![(0, vec![t(0), n(1), t(1)]), (1, vec![]), (1, vec![n(1), t(2)])])),
        ("nullable-chain", g(3, 3, vec![(0, vec![n(1), n(2), t(2)]), (1, vec![t(0)]), (1, vec![]), (2, vec![t(1)]), (2, vec![])])),
        ("lr-mix", g(3, 4, vec![(0, vec![t(0), n(1)]), (0, vec![t(1), n(2)]), (1, vec![n(1), t(2), t(3)]), (1, vec![t(3)]), (2, vec![t(3), t(2), n(2)]), (2, vec![t(3)])])),
        ("ambiguous-expr", g(1, 3, vec![(0, vec![n(0), t(0), n(0)]), (0, vec![n(0), t(1), n(0)]), (0, vec![t(2)])])),
        ("json-like", g(4, 6, vec![
            (0, vec![t(0), n(1), t(1)]), (0, vec![t(2), n(2), t(3)]), (0, vec![t(4)]),
            (1, vec![]), (1, vec![n(3)]),
            (2, vec![]), (2, vec![n(3)]),
            (3, vec![n(0)]), (3, vec![n(3), t(5), n(0)]),
        ])),
        // the smallest witness of the known finding D12: a derivation cycle whose conflict is hidden by a useless nonterminal
        ("cyclic-hidden", g(3, 1, vec![(0, vec![n(1), n(0), n(2)]), (1, vec![n(1)]), (1, vec![t(0)])])),
        ("unitlike", g(2, 2, vec![(0, vec![]), (0, vec![t(0)]), (0, vec![t(1)]), (0, vec![t(0), n(1)]), (1, vec![t(0)]), (1, vec![t(1)])])),
    ]
}

/// All grammars one edit away from `g` (normalized production sets, duplicates removed, `g` itself excluded).
pub fn edits(g: &Grammar) -> Vec<Grammar> {
    let syms: Vec<Sym> = (0..g.n).map(|i| Sym::N(i as u8)).chain((0..g.t).map(|j| Sym::T(j as u8))).collect();
    let mut out: Vec<Vec<(u8, Vec<Sym>)>> = vec![];
    for (pi, (l, rhs)) in g.prods.iter().enumerate() {
        let with = |np: Option<(u8, Vec<Sym>)>| -> Vec<(u8, Vec<Sym>)> {
            let mut v = g.prods.clone();
            match np {
                Some(p) => v[pi] = p,
                None => {
                    v.remove(pi);
                }
            }
            v
        };
        for k in 0..rhs.len() {
            for s in &syms {
                if *s != rhs[k] {
                    let mut r = rhs.clone();
                    r[k] = *s;
                    out.push(with(Some((*l, r))));
                }
            }
            let mut r = rhs.clone();
            r.remove(k);
            out.push(with(Some((*l, r))));
        }
        for k in 0..=rhs.len() {
            for s in &syms {
                let mut r = rhs.clone();
                r.insert(k, *s);
                out.push(with(Some((*l, r))));
            }
        }
        out.push(with(None));
        for l2 in 0..g.n as u8 {
            if l2 != *l {
                out.push(with(Some((l2, rhs.clone()))));
            }
        }
    }
    // change the start symbol: swap nonterminal 0 with another one
    for b in 1..g.n as u8 {
        let sw = |x: u8| if x == 0 { b } else if x == b { 0 } else { x };
        out.push(g.prods.iter().map(|(l, r)| (sw(*l), r.iter().map(|s| if let Sym::N(x) = s { Sym::N(sw(*x)) } else { *s }).collect())).collect());
    }
    let me = normalize(g);
    let mut seen: BTreeSet<Grammar> = BTreeSet::new();
    let mut res = vec![];
    for prods in out {
        let len = prods.len();
        let h = normalize(&Grammar { n: g.n, t: g.t, prods });
        if h.prods.len() != len || h == me {
            continue; // the edit produced a duplicate production, or nothing changed
        }
        if seen.insert(h.clone()) {
            res.push(h);
        }
    }
    res
}

/// Nbh(seed, k): the seed and everything within k edits, breadth first, capped at `cap` grammars.
pub fn neighbourhood(seed: &Grammar, k: usize, cap: usize) -> (Vec<Grammar>, bool) {
    let s = normalize(seed);
    let mut seen: BTreeSet<Grammar> = BTreeSet::new();
    seen.insert(s.clone());
    let mut all = vec![s.clone()];
    let mut level = vec![s];
    for _ in 0..k {
        let mut next = vec![];
        for g in &level {
            for h in edits(g) {
                if seen.insert(h.clone()) {
                    next.push(h);
                }
            }
        }
        all.extend(next.iter().cloned());
        level = next;
        if all.len() > cap {
            all.truncate(cap);
            return (all, true);
        }
    }
    (all, false)
}

// ---------------------------------------------------------------------------------------------
// Presentation: how an abstract grammar is written down as a Kiki file.

#[derive(Clone, Debug, PartialEq, Eq)]
pub struct ProdStyle {
    /// named fieldset `{ f: X }` instead of tuple `( X )` (irrelevant for empty right-hand sides)
    pub named: bool,
    /// bit i set = field i is written `_: X`
    pub skip_mask: u32,
}

#[derive(Clone, Debug, PartialEq, Eq)]
pub struct Presentation {
    /// declaration order of the nonterminals
    pub decl_order: Vec<u8>,
    /// a nonterminal with exactly one production is written as a struct
    pub single_as_struct: Vec<bool>,
    pub styles: Vec<ProdStyle>,
    /// 0 = `start` first, terminal enum last; 1 = terminal enum first, `start` last; 2 = both in the middle
    pub layout: u8,
    /// 0 = names ascending with the index (Aa, Bb / Ta, Tb), 1 = descending (Zz, Yy / Tz, Ty)
    pub naming: u8,
    /// attribute line written before every declaration ("" = none)
    pub attribute: String,
    /// payload type of every terminal
    pub payload: String,
    /// overrides: "n<i>" nonterminal name, "t<i>" terminal name, "tok" terminal enum name,
    /// "v<prod>" variant name, "f<prod>_<pos>" field name, "p<i>" payload type of terminal i,
    /// "a<i>" attribute text of nonterminal i's declaration, "atok" of the terminal enum
    pub names: std::collections::BTreeMap<String, String>,
}

fn all_ones(len: usize) -> u32 {
    if len >= 32 {
        u32::MAX
    } else {
        (1u32 << len) - 1
    }
}

impl ProdStyle {
    /// Is position `i` written `_`? (for right-hand sides longer than 32 the mask repeats)
    pub fn skipped(&self, i: usize) -> bool {
        self.skip_mask >> (i % 32) & 1 == 1
    }
}

impl Presentation {
    pub fn plain(g: &Grammar) -> Presentation {
        Presentation {
            decl_order: (0..g.n as u8).collect(),
            single_as_struct: vec![false; g.n],
            styles: g.prods.iter().map(|_| ProdStyle { named: false, skip_mask: 0 }).collect(),
            layout: 0,
            naming: 0,
            attribute: String::new(),
            payload: "()".into(),
            names: Default::default(),
        }
    }

    /// A deterministic function of the enumeration index that cycles through the presentation features,
    /// so that every feature meets many grammars.
    pub fn rotating(g: &Grammar, index: u64) -> Presentation {
        let mut x = index.wrapping_mul(0x9E3779B97F4A7C15) ^ (index >> 7);
        let mut take = |m: u64| -> u64 {
            let r = x % m;
            x = x / m ^ x.rotate_left(17).wrapping_mul(0xD1B54A32D192ED03);
            r
        };
        let mut decl_order: Vec<u8> = (0..g.n as u8).collect();
        // rotate / reverse the declaration order
        match take(3) {
            1 => decl_order.reverse(),
            2 => decl_order.rotate_left(1.min(g.n.saturating_sub(1))),
            _ => {}
        }
        let single_as_struct = (0..g.n).map(|_| take(2) == 1).collect();
        let styles = g
            .prods
            .iter()
            .map(|(_, rhs)| {
                let named = take(2) == 1;
                let skip_mask = match take(4) {
                    0 | 1 => 0,
                    2 => (take(1 << rhs.len().min(8)) as u32) & all_ones(rhs.len()),
                    _ => all_ones(rhs.len()),
                };
                ProdStyle { named, skip_mask }
            })
            .collect();
        Presentation { decl_order, single_as_struct, styles, layout: take(3) as u8, naming: take(2) as u8, attribute: String::new(), payload: "()".into(), names: Default::default() }
    }
}

/// Every presentation of a grammar along the dimensions that interact with its shape: per production named / tuple
/// and every `_` mask, per single-production nonterminal struct / enum, declaration order as is / reversed.
/// The layout (where `start` and the terminal enum stand) rotates; naming order and attributes stay fixed.
pub fn for_each_presentation(g: &Grammar, f: &mut dyn FnMut(Presentation)) {
    let singles: Vec<usize> = (0..g.n).filter(|nt| g.prods.iter().filter(|p| p.0 as usize == *nt).count() == 1).collect();
    fn styles_rec(g: &Grammar, i: usize, cur: &mut Vec<ProdStyle>, f: &mut dyn FnMut(&Vec<ProdStyle>)) {
        if i == g.prods.len() {
            f(cur);
            return;
        }
        let len = g.prods[i].1.len();
        for named in [false, true] {
            if len == 0 && named {
                continue; // an empty fieldset has one spelling per kind; the tuple form stands for both
            }
            for mask in 0..(1u32 << len.min(5)) {
                cur.push(ProdStyle { named, skip_mask: mask });
                styles_rec(g, i + 1, cur, f);
                cur.pop();
            }
        }
    }
    let mut count = 0u64;
    let mut all_styles: Vec<Vec<ProdStyle>> = vec![];
    styles_rec(g, 0, &mut vec![], &mut |st| all_styles.push(st.clone()));
    for styles in all_styles {
        for sm in 0..(1u32 << singles.len()) {
            let mut single_as_struct = vec![false; g.n];
            for (k, nt) in singles.iter().enumerate() {
                single_as_struct[*nt] = sm >> k & 1 == 1;
            }
            for rev in [false, true] {
                if rev && g.n < 2 {
                    continue;
                }
                let mut decl_order: Vec<u8> = (0..g.n as u8).collect();
                if rev {
                    decl_order.reverse();
                }
                // (the layout - where `start` and the terminal enum stand - rotates instead of multiplying the space)
                count += 1;
                f(Presentation { decl_order: decl_order.clone(), single_as_struct: single_as_struct.clone(), styles: styles.clone(), layout: (count % 3) as u8, naming: 0, attribute: String::new(), payload: "()".into(), names: Default::default() });
            }
        }
    }
}

pub struct Names {
    pub nonterminals: Vec<String>,
    pub terminals: Vec<String>,
    pub terminal_enum: String,
    /// constructor path of each production: (type name, Some(variant name))
    pub constructors: Vec<(String, Option<String>)>,
    /// field names of each production's used named fields etc.: per production, per position: Some(name) if named
    pub fields: Vec<Vec<Option<String>>>,
}

pub struct Rendered {
    pub source: String,
    pub names: Names,
}

const UP: &[u8] = b"ABCDEFGHIJKLMNOPQRSTUVWXYZ";

/// Default field and variant names are deliberately NOT in alphabetical order and contain prefixes of one
/// another, so that code which sorts or matches names as text cannot hide behind f0 < f1 < f2.
/// (some begin with an underscore or have no letter at all: legal names that are not the reserved word `_`)
const FIELD_NAMES: [&str; 14] = ["z", "a", "_m", "ab", "y", "_0b", "x", "c", "__", "d", "v", "e", "u", "f"];
const VARIANT_NAMES: [&str; 10] = ["Vz", "Va", "Vm", "Vab", "Vy", "_Vb", "Vx", "Vc", "Vw", "Vd"];

pub fn default_field_name(i: usize) -> String {
    FIELD_NAMES.get(i).map(|s| s.to_string()).unwrap_or_else(|| format!("q{i}"))
}

pub fn default_variant_name(k: usize) -> String {
    VARIANT_NAMES.get(k).map(|s| s.to_string()).unwrap_or_else(|| format!("V{k}"))
}

pub fn nonterminal_name(i: usize, naming: u8) -> String {
    if i >= 26 {
        return format!("N{i}n"); // the scaled families
    }
    let j = if naming == 1 { 25 - i } else { i };
    assert!(j < 26);
    let c = UP[j] as char;
    format!("{}{}", c, c.to_ascii_lowercase())
}

pub fn terminal_name(i: usize, naming: u8) -> String {
    if i >= 26 {
        return format!("T{i}x");
    }
    let j = if naming == 1 { 25 - i } else { i };
    assert!(j < 26);
    // three characters, so that no terminal name can coincide with a (two-letter) nonterminal name
    format!("T{}x", (UP[j] as char).to_ascii_lowercase())
}

pub fn render(g: &Grammar, pr: &Presentation) -> Rendered {
    let ov = |key: String, default: String| -> String { pr.names.get(&key).cloned().unwrap_or(default) };
    let nts: Vec<String> = (0..g.n).map(|i| ov(format!("n{i}"), nonterminal_name(i, pr.naming))).collect();
    let ts: Vec<String> = (0..g.t).map(|i| ov(format!("t{i}"), terminal_name(i, pr.naming))).collect();
    let tok = ov("tok".into(), "Tok".into());
    let mut constructors = vec![(String::new(), None); g.prods.len()];
    let mut fields = vec![vec![]; g.prods.len()];
    let sym_src = |s: &Sym| match s {
        Sym::N(b) => nts[*b as usize].clone(),
        Sym::T(b) => format!("${}", ts[*b as usize]),
    };
    let mut decls: Vec<String> = vec![];
    for &nt in &pr.decl_order {
        let ps: Vec<usize> = g.prods.iter().enumerate().filter(|(_, p)| p.0 == nt).map(|(i, _)| i).collect();
        let name = &nts[nt as usize];
        let mut fieldset_src = |pi: usize, indent: &str| -> String {
            let rhs = &g.prods[pi].1;
            let st = &pr.styles[pi];
            if rhs.is_empty() {
                fields[pi] = vec![];
                return String::new();
            }
            let mut names = vec![];
            let mut s = String::new();
            if st.named {
                s += " {\n";
                for (i, x) in rhs.iter().enumerate() {
                    if st.skipped(i) {
                        s += &format!("{indent}    _: {}\n", sym_src(x));
                        names.push(None);
                    } else {
                        let fname = ov(format!("f{pi}_{i}"), default_field_name(i));
                        s += &format!("{indent}    {fname}: {}\n", sym_src(x));
                        names.push(Some(fname));
                    }
                }
                s += &format!("{indent}}}");
            } else {
                s += "(";
                for (i, x) in rhs.iter().enumerate() {
                    if i > 0 {
                        s += " ";
                    }
                    if st.skipped(i) {
                        s += &format!("_: {}", sym_src(x));
                    } else {
                        s += &sym_src(x);
                    }
                    names.push(None);
                }
                s += ")";
            }
            fields[pi] = names;
            s
        };
        let attr_text = ov(format!("a{nt}"), pr.attribute.clone());
        let attr = if attr_text.is_empty() { String::new() } else { format!("{}\n", attr_text) };
        if ps.len() == 1 && pr.single_as_struct[nt as usize] {
            let fs = fieldset_src(ps[0], "");
            constructors[ps[0]] = (name.clone(), None);
            decls.push(format!("{attr}struct {name}{fs}\n"));
        } else {
            let mut s = format!("{attr}enum {name} {{\n");
            for (k, &pi) in ps.iter().enumerate() {
                let fs = fieldset_src(pi, "    ");
                let vname = ov(format!("v{pi}"), default_variant_name(k));
                s += &format!("    {vname}{fs}\n");
                constructors[pi] = (name.clone(), Some(vname));
            }
            s += "}\n";
            decls.push(s);
        }
    }
    let attr_text = ov("atok".into(), pr.attribute.clone());
    let attr = if attr_text.is_empty() { String::new() } else { format!("{}\n", attr_text) };
    let mut term = format!("{attr}terminal {tok} {{\n");
    for (ti, tname) in ts.iter().enumerate() {
        term += &format!("    ${tname}: {}\n", ov(format!("p{ti}"), pr.payload.clone()));
    }
    term += "}\n";
    let start = format!("start {}\n", nts[0]);
    let mut parts: Vec<String> = vec![];
    match pr.layout {
        0 => {
            parts.push(start);
            parts.extend(decls);
            parts.push(term);
        }
        1 => {
            parts.push(term);
            parts.extend(decls);
            parts.push(start);
        }
        _ => {
            let mid = decls.len() / 2;
            let tail = decls.split_off(mid);
            parts.extend(decls);
            parts.push(term);
            parts.push(start);
            parts.extend(tail);
        }
    }
    Rendered { source: parts.join("\n"), names: Names { nonterminals: nts, terminals: ts, terminal_enum: tok, constructors, fields } }
}

/// kiki's rule order: nonterminals in declaration order, productions of each in the order written.
/// Returns, for each kiki rule index, the reference production index.
pub fn kiki_rule_order(g: &Grammar, pr: &Presentation) -> Vec<usize> {
    let mut out = vec![];
    for &nt in &pr.decl_order {
        for (i, p) in g.prods.iter().enumerate() {
            if p.0 == nt {
                out.push(i);
            }
        }
    }
    out
}

pub fn grammar_json(g: &Grammar) -> serde_json::Value {
    let prods: Vec<serde_json::Value> = g
        .prods
        .iter()
        .map(|(l, r)| {
            let rhs: Vec<String> = r
                .iter()
                .map(|s| match s {
                    Sym::N(b) => format!("N{b}"),
                    Sym::T(b) => format!("t{b}"),
                })
                .collect();
            serde_json::json!(format!("N{} -> {}", l, if rhs.is_empty() { "ε".to_string() } else { rhs.join(" ") }))
        })
        .collect();
    serde_json::json!({"nonterminals": g.n, "terminals": g.t, "productions": prods})
}
