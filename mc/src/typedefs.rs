//! Text-level oracle for the emitted public type definitions, usable on ANY accepted source:
//! the `pub struct` / `pub enum` items of the emitted text are parsed at token level and compared with
//! what the declarations (reference AST) demand: names and order of types, variants and fields,
//! `pub` on struct fields, `Box<T>` for nonterminals, the declared payload type token for token for
//! terminals, `_` fields omitted, unit-like forms, attributes verbatim and in order.

use crate::extract::{lex_rust, Tok};
use crate::reffront::*;

#[derive(Clone, Debug, PartialEq, Eq)]
pub struct Field {
    pub name: Option<String>,
    pub public: bool,
    /// type as whitespace-free concatenation of its tokens
    pub ty: String,
}

#[derive(Clone, Debug, PartialEq, Eq)]
pub enum Shape {
    Unit,
    Tuple(Vec<Field>),
    Named(Vec<Field>),
}

#[derive(Clone, Debug, PartialEq, Eq)]
pub enum Def {
    Struct { name: String, shape: Shape },
    Enum { name: String, variants: Vec<(String, Shape)> },
}

impl Def {
    pub fn name(&self) -> &str {
        match self {
            Def::Struct { name, .. } | Def::Enum { name, .. } => name,
        }
    }
}

fn tok_text(t: &Tok) -> String {
    match t {
        Tok::Ident(x) | Tok::Num(x) | Tok::Str(x) | Tok::Lifetime(x) => x.to_string(),
        Tok::Punct(c) => c.to_string(),
    }
}

/// Reads a type starting at `j` up to a `,` or the closing bracket of the enclosing group at depth 0.
fn read_type(t: &[Tok], mut j: usize) -> (String, usize) {
    let mut depth = 0i32;
    let mut s = String::new();
    while j < t.len() {
        let x = &t[j];
        if depth == 0 && (x.is(',') || x.is(')') || x.is('}')) {
            break;
        }
        if x.is('<') || x.is('(') || x.is('[') {
            depth += 1;
        }
        if x.is('>') || x.is(')') || x.is(']') {
            depth -= 1;
        }
        s.push_str(&tok_text(x));
        j += 1;
    }
    (s, j)
}

fn read_shape(t: &[Tok], j: usize) -> Result<(Shape, usize), String> {
    if j < t.len() && t[j].is('(') {
        let mut fields = vec![];
        let mut k = j + 1;
        loop {
            if k >= t.len() {
                return Err("unterminated tuple fieldset".into());
            }
            if t[k].is(')') {
                return Ok((Shape::Tuple(fields), k + 1));
            }
            let public = t[k].is_ident("pub");
            if public {
                k += 1;
            }
            let (ty, k2) = read_type(t, k);
            fields.push(Field { name: None, public, ty });
            k = k2;
            if k < t.len() && t[k].is(',') {
                k += 1;
            }
        }
    }
    if j < t.len() && t[j].is('{') {
        let mut fields = vec![];
        let mut k = j + 1;
        loop {
            if k >= t.len() {
                return Err("unterminated named fieldset".into());
            }
            if t[k].is('}') {
                return Ok((Shape::Named(fields), k + 1));
            }
            let public = t[k].is_ident("pub");
            if public {
                k += 1;
            }
            let name = t[k].ident().ok_or("field name expected")?.to_string();
            if !t[k + 1].is(':') {
                return Err("`:` expected after a field name".into());
            }
            let (ty, k2) = read_type(t, k + 2);
            fields.push(Field { name: Some(name), public, ty });
            k = k2;
            if k < t.len() && t[k].is(',') {
                k += 1;
            }
        }
    }
    Ok((Shape::Unit, j))
}

/// The public type definitions of the emitted text, in order, each with the attribute lines directly above it.
pub fn emitted_defs(emitted: &str) -> Result<Vec<(Vec<String>, Def)>, String> {
    // attributes are taken from the raw lines (they must be verbatim), definitions from tokens
    let t = lex_rust(emitted)?;
    let mut defs: Vec<Def> = vec![];
    let mut j = 0;
    while j + 2 < t.len() {
        if t[j].is_ident("pub") && t[j + 1].is_ident("fn") {
            break; // the types come before `pub fn parse`
        }
        if t[j].is_ident("pub") && (t[j + 1].is_ident("struct") || t[j + 1].is_ident("enum")) {
            let name = t[j + 2].ident().ok_or("type name expected")?.to_string();
            if t[j + 1].is_ident("struct") {
                let (shape, k) = read_shape(&t, j + 3)?;
                defs.push(Def::Struct { name, shape });
                j = k;
            } else {
                if !t[j + 3].is('{') {
                    return Err("`{` expected after an enum name".into());
                }
                let mut variants = vec![];
                let mut k = j + 4;
                loop {
                    if k >= t.len() {
                        return Err("unterminated enum".into());
                    }
                    if t[k].is('}') {
                        k += 1;
                        break;
                    }
                    let vname = t[k].ident().ok_or("variant name expected")?.to_string();
                    let (shape, k2) = read_shape(&t, k + 1)?;
                    variants.push((vname, shape));
                    k = k2;
                    if k < t.len() && t[k].is(',') {
                        k += 1;
                    }
                }
                defs.push(Def::Enum { name, variants });
                j = k;
            }
        } else {
            j += 1;
        }
    }
    // attribute lines directly above each `pub struct|enum NAME` line
    let lines: Vec<&str> = emitted.lines().collect();
    let mut out = vec![];
    for d in defs {
        let kw = if matches!(d, Def::Struct { .. }) { "struct" } else { "enum" };
        let needle = format!("pub {kw} {}", d.name());
        let pos = lines.iter().position(|l| l.starts_with(&needle) && !l[needle.len()..].chars().next().map(|c| c.is_ascii_alphanumeric() || c == '_').unwrap_or(false));
        let mut attrs = vec![];
        if let Some(p) = pos {
            let mut q = p;
            while q > 0 && lines[q - 1].starts_with("#[") {
                q -= 1;
            }
            attrs = lines[q..p].iter().map(|s| s.to_string()).collect();
        }
        out.push((attrs, d));
    }
    Ok(out)
}

/// What the declarations demand (in the order the generator documents: the terminal enum first, then the
/// nonterminals in declaration order).
pub fn expected_defs(file: &RFile) -> Option<Vec<(Vec<String>, Def)>> {
    let (tok_name, terminals, tok_attrs) = file.items.iter().find_map(|i| if let RItem::Terminal { name, variants, attrs } = i { Some((name.name.clone(), variants, attrs.clone())) } else { None })?;
    let payload = |n: &str| -> Option<String> { terminals.iter().find(|t| t.name.name == n).map(|t| t.ty.tokens().concat()) };
    let shape_of = |fs: &RFieldset, is_struct: bool| -> Option<Shape> {
        let used: Vec<&RField> = fs.fields().iter().filter(|f| !f.skipped).collect();
        if used.is_empty() {
            return Some(Shape::Unit);
        }
        let mut fields = vec![];
        for f in used {
            let ty = if f.sym.terminal { payload(&f.sym.name)? } else { format!("Box<{}>", f.sym.name) };
            fields.push(Field { name: if matches!(fs, RFieldset::Named(_)) { f.name.as_ref().map(|n| n.name.clone()) } else { None }, public: is_struct, ty });
        }
        Some(if matches!(fs, RFieldset::Named(_)) { Shape::Named(fields) } else { Shape::Tuple(fields) })
    };
    let mut out = vec![(
        tok_attrs,
        Def::Enum { name: tok_name, variants: terminals.iter().map(|t| (t.name.name.clone(), Shape::Tuple(vec![Field { name: None, public: false, ty: t.ty.tokens().concat() }]))).collect() },
    )];
    for it in &file.items {
        match it {
            RItem::Struct { attrs, name, fieldset } => out.push((attrs.clone(), Def::Struct { name: name.name.clone(), shape: shape_of(fieldset, true)? })),
            RItem::Enum { attrs, name, variants } => {
                let mut vs = vec![];
                for v in variants {
                    vs.push((v.name.name.clone(), shape_of(&v.fieldset, false)?));
                }
                out.push((attrs.clone(), Def::Enum { name: name.name.clone(), variants: vs }));
            }
            _ => {}
        }
    }
    Some(out)
}

/// Compares emitted and expected definitions; returns a description of the first difference.
pub fn compare(src: &str, emitted: &str) -> Result<Option<String>, String> {
    let (file, _) = parse_source(src).map_err(|e| format!("reference front end rejects the source: {e:?}"))?;
    let want = expected_defs(&file).ok_or("declarations reference an undeclared terminal")?;
    let got = emitted_defs(emitted)?;
    if got.len() != want.len() {
        return Ok(Some(format!("{} public type definitions emitted, {} declared ({:?} vs {:?})", got.len(), want.len(), got.iter().map(|d| d.1.name().to_string()).collect::<Vec<_>>(), want.iter().map(|d| d.1.name().to_string()).collect::<Vec<_>>())));
    }
    for ((ga, gd), (wa, wd)) in got.iter().zip(&want) {
        if gd != wd {
            return Ok(Some(format!("definition of {}: emitted {:?}, the declaration demands {:?}", wd.name(), gd, wd)));
        }
        if ga != wa {
            return Ok(Some(format!("attributes of {}: emitted {:?}, declared {:?}", wd.name(), ga, wa)));
        }
    }
    // the parse signature
    let t = lex_rust(emitted)?;
    let start = file.items.iter().find_map(|i| if let RItem::Start(n) = i { Some(n.name.clone()) } else { None }).unwrap_or_default();
    let tok = want[0].1.name().to_string();
    let mut sig = String::new();
    for j in 0..t.len().saturating_sub(2) {
        if t[j].is_ident("pub") && t[j + 1].is_ident("fn") && t[j + 2].is_ident("parse") {
            let mut k = j;
            while k < t.len() && !t[k].is('{') {
                sig.push_str(&tok_text(&t[k]));
                k += 1;
            }
            break;
        }
    }
    // pub fn parse<P>(src: P) -> Result<Start, Option<Tok>> where P: IntoIterator<Item = Tok>
    let ok = (|| {
        let rest = sig.strip_prefix("pubfnparse<")?;
        let close = rest.find('>')?;
        let p = &rest[..close];
        // the type parameter must not shadow a declared type: `parse<S>(src: S) -> Result<S, ..>` would not return the start type
        if want.iter().any(|d| d.1.name() == p) {
            return None;
        }
        let rest = rest[close + 1..].strip_prefix("(src:")?;
        let rest = rest.strip_prefix(p)?;
        let rest = rest.strip_prefix(")->")?;
        let rest = rest.strip_prefix(&format!("Result<{start},Option<{tok}>>"))?;
        let rest = rest.strip_prefix("where")?;
        let rest = rest.strip_prefix(p)?;
        if rest == format!(":IntoIterator<Item={tok}>") {
            Some(())
        } else {
            None
        }
    })();
    if ok.is_none() {
        return Ok(Some(format!("parse signature is `{sig}`, expected `pub fn parse<P>(src: P) -> Result<{start}, Option<{tok}>> where P: IntoIterator<Item = {tok}>` with a type parameter P that is none of the declared types")));
    }
    Ok(None)
}
