//! C18 — the public ordered set behaves as a sorted mathematical set.
//!
//! Engine E6: stateright BFS to fixpoint over the *real* `kiki::Oset<E>` paired with a
//! `std::collections::BTreeSet<E>` (the boring reference model). The real object is the
//! model-checker state, so every transition is an execution of the implementation.

use crate::common::*;
use kiki::Oset;
use serde_json::{json, Value};
use stateright::{Checker, Model, Property};
use std::cmp::Ordering;
use std::cmp::Reverse;
use std::collections::hash_map::DefaultHasher;
use std::collections::{BTreeMap, BTreeSet};
use std::fmt::Debug;
use std::hash::{Hash, Hasher};
use std::sync::atomic::{AtomicU64, Ordering as AO};
use std::sync::{Arc, Mutex};

pub trait Elem: Ord + Clone + Hash + Debug + Send + Sync + 'static {
    fn to_json(&self) -> Value;
    fn from_json(v: &Value) -> Option<Self>;
    const TYPE_NAME: &'static str;
}
impl Elem for u8 {
    fn to_json(&self) -> Value {
        json!(*self)
    }
    fn from_json(v: &Value) -> Option<Self> {
        v.as_u64().map(|x| x as u8)
    }
    const TYPE_NAME: &'static str = "u8";
}
impl Elem for Reverse<u8> {
    fn to_json(&self) -> Value {
        json!(self.0)
    }
    fn from_json(v: &Value) -> Option<Self> {
        v.as_u64().map(|x| Reverse(x as u8))
    }
    const TYPE_NAME: &'static str = "Reverse<u8>";
}
impl Elem for String {
    fn to_json(&self) -> Value {
        json!(self)
    }
    fn from_json(v: &Value) -> Option<Self> {
        v.as_str().map(|s| s.to_string())
    }
    const TYPE_NAME: &'static str = "String";
}
impl Elem for (u8, u8) {
    fn to_json(&self) -> Value {
        json!([self.0, self.1])
    }
    fn from_json(v: &Value) -> Option<Self> {
        Some((v.get(0)?.as_u64()? as u8, v.get(1)?.as_u64()? as u8))
    }
    const TYPE_NAME: &'static str = "(u8,u8)";
}

#[derive(Clone, Debug, PartialEq, Eq, Hash)]
pub enum Op<E> {
    Insert(E),
    Extend(Vec<E>),
    FromIter(Vec<E>),
    /// Replace by `Oset::new()` / `Oset::default()`.
    New(bool),
    /// Replace by a clone of itself.
    CloneSelf,
}

impl<E: Elem> Op<E> {
    fn to_json(&self) -> Value {
        match self {
            Op::Insert(e) => json!(["insert", e.to_json()]),
            Op::Extend(s) => json!(["extend", s.iter().map(|e| e.to_json()).collect::<Vec<_>>()]),
            Op::FromIter(s) => json!(["from_iter", s.iter().map(|e| e.to_json()).collect::<Vec<_>>()]),
            Op::New(d) => json!([if *d { "default" } else { "new" }]),
            Op::CloneSelf => json!(["clone"]),
        }
    }
    fn from_json(v: &Value) -> Option<Op<E>> {
        let name = v.get(0)?.as_str()?;
        let seq = |v: &Value| -> Option<Vec<E>> { v.as_array()?.iter().map(E::from_json).collect() };
        Some(match name {
            "insert" => Op::Insert(E::from_json(v.get(1)?)?),
            "extend" => Op::Extend(seq(v.get(1)?)?),
            "from_iter" => Op::FromIter(seq(v.get(1)?)?),
            "new" => Op::New(false),
            "default" => Op::New(true),
            "clone" => Op::CloneSelf,
            _ => return None,
        })
    }
}

/// Applies one operation to the real Oset and to the reference set.
fn apply<E: Elem>(real: &Oset<E>, model: &BTreeSet<E>, op: &Op<E>) -> (Oset<E>, BTreeSet<E>) {
    match op {
        Op::Insert(e) => {
            let (mut r, mut m) = (real.clone(), model.clone());
            r.insert(e.clone());
            m.insert(e.clone());
            (r, m)
        }
        Op::Extend(s) => {
            let (mut r, mut m) = (real.clone(), model.clone());
            r.extend(s.iter().cloned());
            m.extend(s.iter().cloned());
            (r, m)
        }
        Op::FromIter(s) => (s.iter().cloned().collect::<Oset<E>>(), s.iter().cloned().collect::<BTreeSet<E>>()),
        Op::New(false) => (Oset::new(), BTreeSet::new()),
        Op::New(true) => (Oset::default(), BTreeSet::new()),
        Op::CloneSelf => (real.clone(), model.clone()),
    }
}

/// Per-state oracle. Returns a description of the first disagreement.
fn state_disagreement<E: Elem>(real: &Oset<E>, model: &BTreeSet<E>, probes: &[E]) -> Option<String> {
    let want: Vec<E> = model.iter().cloned().collect();
    let by_ref: Vec<E> = real.into_iter().cloned().collect();
    if by_ref != want {
        return Some(format!("iteration by reference yields {by_ref:?}, the set is {want:?}"));
    }
    let by_value: Vec<E> = real.clone().into_iter().collect();
    if by_value != want {
        return Some(format!("iteration by value yields {by_value:?}, the set is {want:?}"));
    }
    let slice: &[E] = real;
    if slice != &want[..] {
        return Some(format!("deref slice is {slice:?}, the set is {want:?}"));
    }
    if real.len() != want.len() || real.iter().count() != want.len() {
        return Some(format!("len {} but the set has {} elements", real.len(), want.len()));
    }
    if !by_ref.windows(2).all(|w| w[0] < w[1]) {
        return Some(format!("iteration not strictly increasing: {by_ref:?}"));
    }
    for p in probes {
        if real.contains(p) != model.contains(p) {
            return Some(format!("contains({p:?}) = {} but the set {want:?} says {}", real.contains(p), model.contains(p)));
        }
    }
    None
}

/// Oracle on a pair of real objects `a`, `b` that should represent the element sets `sa`, `sb`.
fn pair_disagreement<E: Elem>(a: &Oset<E>, sa: &BTreeSet<E>, b: &Oset<E>, sb: &BTreeSet<E>) -> Option<String> {
    let same = sa == sb;
    let eq = a == b;
    let ord = a.cmp(b);
    let pord = a.partial_cmp(b);
    let problem = if eq != same {
        format!("`==` is {eq} but the element sets are {}", if same { "equal" } else { "different" })
    } else if (a != b) == eq {
        "`!=` is not the negation of `==`".to_string()
    } else if (ord == Ordering::Equal) != same {
        format!("`cmp` is {ord:?} but the element sets are {}", if same { "equal" } else { "different" })
    } else if pord != Some(ord) {
        format!("`partial_cmp` {pord:?} disagrees with `cmp` {ord:?}")
    } else if b.cmp(a) != ord.reverse() {
        "`cmp` is not antisymmetric".to_string()
    } else if same && hash_of(a) != hash_of(b) {
        "equal element sets hash differently".to_string()
    } else {
        return None;
    };
    Some(format!("Oset<{}> {:?} (set {:?}) vs {:?} (set {:?}): {problem}", E::TYPE_NAME, a, sa, b, sb))
}

fn pair_finding<E: Elem>(histories: &[Vec<Op<E>>], problem: String) -> Finding {
    let hs: Vec<Value> = histories.iter().map(|h| Value::Array(h.iter().map(|o| o.to_json()).collect())).collect();
    Finding::new("oset_pair", json!({"element_type": E::TYPE_NAME, "histories": hs}), problem.clone(), json!("==, cmp and Hash are functions of the two element sets; cmp is a total order consistent with =="), json!(problem))
}

/// Re-executes the histories of a pair finding and applies the pair oracle to all pairs (and transitivity to all triples).
fn check_pairs<E: Elem>(histories: &[Vec<Op<E>>]) -> Vec<Finding> {
    let mut objs: Vec<(Oset<E>, BTreeSet<E>)> = vec![];
    for h in histories {
        let mut cur: (Oset<E>, BTreeSet<E>) = (Oset::new(), BTreeSet::new());
        for op in h {
            cur = apply(&cur.0, &cur.1, op);
        }
        objs.push(cur);
    }
    for (a, sa) in &objs {
        for (b, sb) in &objs {
            if let Some(p) = pair_disagreement(a, sa, b, sb) {
                return vec![pair_finding(histories, p)];
            }
            for (c, sc) in &objs {
                for (d, sd) in &objs {
                    if sa == sc && sb == sd && a.cmp(b) != c.cmp(d) {
                        return vec![pair_finding(histories, format!("Oset<{}>: `cmp` depends on more than the two element sets", E::TYPE_NAME))];
                    }
                }
                if a.cmp(b) == Ordering::Less && b.cmp(c) == Ordering::Less && a.cmp(c) != Ordering::Less {
                    return vec![pair_finding(histories, format!("Oset<{}>: `cmp` is not transitive", E::TYPE_NAME))];
                }
            }
        }
    }
    vec![]
}

fn hash_of<T: Hash>(t: &T) -> u64 {
    let mut h = DefaultHasher::new();
    t.hash(&mut h);
    h.finish()
}

type Reached<E> = Arc<Mutex<BTreeMap<BTreeSet<E>, Vec<(Oset<E>, Vec<usize>)>>>>;

struct OsetModel<E: Elem> {
    ops: Vec<Op<E>>,
    probes: Vec<E>,
    transitions: Arc<AtomicU64>,
    /// every real object reached, grouped by the element set it should represent
    reached: Reached<E>,
}

impl<E: Elem> Model for OsetModel<E> {
    type State = (Oset<E>, BTreeSet<E>);
    type Action = usize;

    fn init_states(&self) -> Vec<Self::State> {
        vec![(Oset::new(), BTreeSet::new())]
    }
    fn actions(&self, _state: &Self::State, actions: &mut Vec<usize>) {
        actions.extend(0..self.ops.len());
    }
    fn next_state(&self, s: &Self::State, a: usize) -> Option<Self::State> {
        self.transitions.fetch_add(1, AO::Relaxed);
        Some(apply(&s.0, &s.1, &self.ops[a]))
    }
    fn properties(&self) -> Vec<Property<Self>> {
        vec![Property::always("real set agrees with reference set", |m: &OsetModel<E>, s: &Self::State| {
            state_disagreement(&s.0, &s.1, &m.probes).is_none()
        })]
    }
}

fn sequences<E: Clone>(domain: &[E], k: usize) -> Vec<Vec<E>> {
    let mut out = vec![vec![]];
    let mut level: Vec<Vec<E>> = vec![vec![]];
    for _ in 0..k {
        let mut next = vec![];
        for s in &level {
            for e in domain {
                let mut t = s.clone();
                t.push(e.clone());
                next.push(t);
            }
        }
        out.extend(next.iter().cloned());
        level = next;
    }
    out
}

struct TypeResult {
    states: u64,
    transitions: u64,
    max_depth: usize,
    closed: bool,
    pair_checks: u64,
    distinct_sets: usize,
    sample: Value,
}

fn history_case<E: Elem>(ops: &[Op<E>], probes: &[E]) -> Value {
    json!({"element_type": E::TYPE_NAME, "history": ops.iter().map(|o| o.to_json()).collect::<Vec<_>>(),
        "membership_probes": probes.iter().map(|e| e.to_json()).collect::<Vec<_>>()})
}

/// Replays one history on the real code against the reference, checking every oracle at every step.
pub fn check_history<E: Elem>(ops: &[Op<E>], probes: &[E]) -> Vec<Finding> {
    let mut real: Oset<E> = Oset::new();
    let mut model: BTreeSet<E> = BTreeSet::new();
    for (i, op) in ops.iter().enumerate() {
        let r = catch(|| apply(&real, &model, op));
        match r {
            Err(p) => {
                return vec![Finding::new("oset_history", history_case(ops, probes), format!("Oset operation {i} panicked: {p}"), json!("no panic"), json!(format!("panic: {p}")))];
            }
            Ok((r, m)) => {
                real = r;
                model = m;
            }
        }
        if let Some(d) = state_disagreement(&real, &model, probes) {
            return vec![Finding::new(
                "oset_history",
                history_case(ops, probes),
                format!("Oset<{}> after {} operation(s): {d}", E::TYPE_NAME, i + 1),
                json!(format!("{:?}", model)),
                json!(d),
            )];
        }
    }
    vec![]
}

fn explore<E: Elem>(domain: Vec<E>, probes: Vec<E>, k: usize, depth_cap: usize, out: &mut Outcome) -> Result<TypeResult, String> {
    let seqs = sequences(&domain, k);
    let mut ops: Vec<Op<E>> = vec![];
    for e in &domain {
        ops.push(Op::Insert(e.clone()));
    }
    for s in &seqs {
        ops.push(Op::Extend(s.clone()));
    }
    for s in &seqs {
        ops.push(Op::FromIter(s.clone()));
    }
    ops.push(Op::New(false));
    ops.push(Op::New(true));
    ops.push(Op::CloneSelf);
    let transitions = Arc::new(AtomicU64::new(0));
    let reached: Reached<E> = Arc::new(Mutex::new(BTreeMap::new()));
    let model = OsetModel { ops: ops.clone(), probes: probes.clone(), transitions: transitions.clone(), reached: reached.clone() };
    let rec = reached.clone();
    let visitor = move |path: stateright::Path<(Oset<E>, BTreeSet<E>), usize>| {
        let last = path.last_state().clone();
        let mut r = rec.lock().unwrap();
        let v = r.entry(last.1).or_default();
        if !v.iter().any(|(o, _)| *o == last.0) {
            v.push((last.0, path.into_actions()));
        }
    };
    let checker = catch(|| model.checker().threads(8).target_max_depth(depth_cap).visitor(visitor).spawn_bfs().join());
    let checker = match checker {
        Ok(c) => c,
        Err(p) => {
            // A panic inside an Oset operation aborts the search thread: find it by plain enumeration.
            for a in &ops {
                let f = check_history(std::slice::from_ref(a), &probes);
                if !f.is_empty() {
                    out.absorb(f);
                    break;
                }
            }
            return Err(format!("stateright search panicked: {p}"));
        }
    };
    let mut sample = json!(null);
    for (name, path) in checker.discoveries() {
        let actions: Vec<Op<E>> = path.into_actions().into_iter().map(|a| ops[a].clone()).collect();
        let fs = check_history(&actions, &probes);
        if fs.is_empty() {
            return Err(format!("stateright discovery for '{name}' does not reproduce outside the explorer"));
        }
        out.absorb(fs);
    }
    // Pairwise oracle over every pair of reached real objects (reached through different histories).
    let reached = reached.lock().unwrap();
    let all: Vec<(&BTreeSet<E>, &Oset<E>, &Vec<usize>)> = reached.iter().flat_map(|(s, v)| v.iter().map(move |(o, h)| (s, o, h))).collect();
    let mut pair_checks = 0u64;
    let mut pair_violation = false;
    let mut cmp_table: BTreeMap<(usize, usize), (Ordering, usize, usize)> = BTreeMap::new();
    let set_index: BTreeMap<&BTreeSet<E>, usize> = reached.keys().enumerate().map(|(i, s)| (s, i)).collect();
    let hist = |h: &Vec<usize>| -> Vec<Op<E>> { h.iter().map(|a| ops[*a].clone()).collect() };
    'outer: for (ia, (sa, a, ha)) in all.iter().enumerate() {
        for (ib, (sb, b, hb)) in all.iter().enumerate() {
            pair_checks += 1;
            if let Some(p) = pair_disagreement(a, sa, b, sb) {
                out.push(pair_finding(&[hist(ha), hist(hb)], p));
                pair_violation = true;
                break 'outer;
            }
            let key = (set_index[*sa], set_index[*sb]);
            let ord = a.cmp(b);
            match cmp_table.get(&key) {
                Some((o, ja, jb)) if *o != ord => {
                    let p = format!("Oset<{}>: `cmp` depends on more than the two element sets: {:?} vs {:?} is {:?} but {:?} vs {:?} is {:?}", E::TYPE_NAME, all[*ja].1, all[*jb].1, o, a, b, ord);
                    out.push(pair_finding(&[hist(all[*ja].2), hist(all[*jb].2), hist(ha), hist(hb)], p));
                    pair_violation = true;
                    break 'outer;
                }
                _ => {
                    cmp_table.insert(key, (ord, ia, ib));
                }
            }
        }
    }
    // transitivity of cmp over one representative per element set
    let n = reached.len();
    if !pair_violation && n <= 300 {
        let less = |i: usize, j: usize| cmp_table.get(&(i, j)).map(|x| x.0) == Some(Ordering::Less);
        'tr: for i in 0..n {
            for j in 0..n {
                if !less(i, j) {
                    continue;
                }
                for l in 0..n {
                    pair_checks += 1;
                    if less(j, l) && !less(i, l) {
                        let (_, a1, b1) = cmp_table[&(i, j)];
                        let (_, _, c1) = cmp_table[&(j, l)];
                        let p = format!("Oset<{}>: `cmp` is not transitive: {:?} < {:?} < {:?} but not {:?} < {:?}", E::TYPE_NAME, all[a1].1, all[b1].1, all[c1].1, all[a1].1, all[c1].1);
                        out.push(pair_finding(&[hist(all[a1].2), hist(all[b1].2), hist(all[c1].2)], p));
                        break 'tr;
                    }
                }
            }
        }
    }
    if let Some((s, o, _)) = all.iter().rev().next() {
        sample = json!({"element_type": E::TYPE_NAME, "a_reached_state": format!("{o:?}"), "reference": format!("{s:?}"), "one_action": ops[ops.len() / 2].to_json()});
    }
    let max_depth = checker.max_depth();
    Ok(TypeResult {
        states: checker.unique_state_count() as u64,
        transitions: transitions.load(AO::Relaxed),
        max_depth,
        closed: max_depth < depth_cap,
        pair_checks,
        distinct_sets: reached.len(),
        sample,
    })
}

pub fn run(ctx: &Ctx) -> Outcome {
    let mut out = Outcome::new("model_checking");
    let (d, k) = ctx.tier.pick((7usize, 4usize), (8, 5));
    let depth_cap = d + 4;
    let mut results: Vec<(&'static str, Result<TypeResult, String>)> = vec![];
    {
        let dom: Vec<u8> = (0..d as u8).map(|i| 10 + 20 * i).collect();
        let mut probes = dom.clone();
        probes.extend([0u8, 15, 255]);
        results.push((<u8 as Elem>::TYPE_NAME, explore(dom, probes, k, depth_cap, &mut out)));
    }
    {
        let dom: Vec<Reverse<u8>> = (0..d as u8).map(|i| Reverse(10 + 20 * i)).collect();
        let mut probes = dom.clone();
        probes.extend([Reverse(0u8), Reverse(15), Reverse(255)]);
        results.push((<Reverse<u8> as Elem>::TYPE_NAME, explore(dom, probes, k, depth_cap, &mut out)));
    }
    {
        let pool = ["b", "ab", "", "a", "B", "ba", "é", "abc"];
        let dom: Vec<String> = pool.iter().take(d).map(|s| s.to_string()).collect();
        let mut probes = dom.clone();
        probes.extend(["aa".to_string(), "zz".to_string(), "A".to_string()]);
        results.push((<String as Elem>::TYPE_NAME, explore(dom, probes, k, depth_cap, &mut out)));
    }
    {
        let pool = [(1u8, 2u8), (2, 1), (1, 1), (2, 2), (0, 3), (3, 0), (0, 0), (255, 255)];
        let dom: Vec<(u8, u8)> = pool.iter().take(d).cloned().collect();
        let mut probes = dom.clone();
        probes.extend([(0u8, 1u8), (1, 3), (9, 9)]);
        results.push((<(u8, u8) as Elem>::TYPE_NAME, explore(dom, probes, k, depth_cap, &mut out)));
    }
    let mut states = 0u64;
    let mut transitions = 0u64;
    let mut pair_checks = 0u64;
    let mut per_type = vec![];
    let mut samples = vec![];
    let mut all_closed = true;
    for (name, r) in results {
        match r {
            Ok(t) => {
                states += t.states;
                transitions += t.transitions;
                pair_checks += t.pair_checks;
                all_closed &= t.closed;
                per_type.push(json!({"element_type": name, "states": t.states, "transitions": t.transitions, "max_depth": t.max_depth,
                    "fixpoint_reached_below_depth_cap": t.closed, "distinct_element_sets_reached": t.distinct_sets, "expected_for_a_correct_set": 1u64 << d, "pair_checks": t.pair_checks}));
                samples.push(t.sample);
            }
            Err(e) => {
                all_closed = false;
                per_type.push(json!({"element_type": name, "search_error": e}));
                if out.findings.is_empty() {
                    machinery_error(format!("C18 {name}: {e}"));
                }
            }
        }
    }
    out.cov("states", json!(states));
    out.cov("transitions", json!(transitions));
    out.cov("traces_validated_against_impl", json!(transitions));
    out.cov("pair_checks", json!(pair_checks));
    out.cov("exhaustive", json!(all_closed));
    out.cov("scopes", json!({"domain_size": d, "max_sequence_length": k, "depth_cap": depth_cap, "per_type": per_type}));
    out.cov("samples", json!(samples));
    out.cov(
        "explanation",
        json!("stateright BFS over (real kiki::Oset, BTreeSet) pairs; actions insert/extend/from_iter/new/default/clone over all elements and all sequences (with duplicates, unsorted) up to the length bound; the search closes (fixpoint) below the depth cap, so every history over the domain is covered; the model *is* the implementation, so every transition is a validated trace"),
    );
    out.assumptions = vec![
        "element types u8, Reverse<u8>, String, (u8,u8) stand for 'any ordered element type' (Oset is generic and only uses Ord)".into(),
        "BTreeSet from std is the reference model".into(),
    ];
    out
}

pub fn replay(kind: &str, case: &Value) -> Option<Vec<Finding>> {
    let ty = case["element_type"].as_str()?;
    if kind == "oset_pair" {
        fn gp<E: Elem>(hs: &[Value]) -> Option<Vec<Finding>> {
            let mut histories = vec![];
            for h in hs {
                let ops: Option<Vec<Op<E>>> = h.as_array()?.iter().map(Op::from_json).collect();
                histories.push(ops?);
            }
            Some(check_pairs(&histories))
        }
        let hs = case["histories"].as_array()?;
        return match ty {
            "u8" => gp::<u8>(hs),
            "Reverse<u8>" => gp::<Reverse<u8>>(hs),
            "String" => gp::<String>(hs),
            "(u8,u8)" => gp::<(u8, u8)>(hs),
            _ => None,
        };
    }
    if kind != "oset_history" {
        return None;
    }
    let hist = case["history"].as_array()?;
    let empty = vec![];
    let pr = case["membership_probes"].as_array().unwrap_or(&empty);
    fn go<E: Elem>(hist: &[Value], probes: &[Value]) -> Option<Vec<Finding>> {
        let ops: Option<Vec<Op<E>>> = hist.iter().map(Op::from_json).collect();
        let ops = ops?;
        let probes: Option<Vec<E>> = probes.iter().map(E::from_json).collect();
        let probes = &probes?;
        Some(check_history(&ops, probes))
    }
    match ty {
        "u8" => go::<u8>(hist, pr),
        "Reverse<u8>" => go::<Reverse<u8>>(hist, pr),
        "String" => go::<String>(hist, pr),
        "(u8,u8)" => go::<(u8, u8)>(hist, pr),
        _ => None,
    }
}
