//! C13 — terminal payload types are reproduced faithfully everywhere they are used.
//! Explores all type expressions of the Kiki type syntax up to a size bound; each is used in a grammar
//! that exposes every use site; every occurrence located in the emitted text is re-tokenised and must
//! equal the declaration's token sequence. For a pool of real Rust types rustc asserts type identity.

use crate::common::*;
use crate::extract::{lex_rust, Tok};
use crate::gramsweep::{generate, Acc, Gen};
use crate::reffront::RType;
use crate::rustrun::{check_compile, CompileUnit};
use rayon::prelude::*;
use serde_json::{json, Value};

fn path(s: &str) -> Vec<String> {
    s.split("::").map(|x| x.to_string()).collect()
}

/// All types of nesting depth <= depth over the given atoms and callees (1 or 2 generic arguments).
pub fn types(atoms: &[RType], callees: &[Vec<String>], depth: usize) -> Vec<RType> {
    let mut level: Vec<RType> = atoms.to_vec();
    for _ in 0..depth {
        let mut next: Vec<RType> = atoms.to_vec();
        for c in callees {
            for a in &level {
                next.push(RType::Complex(c.clone(), vec![a.clone()]));
            }
            for a in &level {
                for b in &level {
                    next.push(RType::Complex(c.clone(), vec![a.clone(), b.clone()]));
                }
            }
        }
        level = next;
    }
    // three and four generic arguments, over the atoms and the first generic types (not squared further)
    let pool: Vec<RType> = atoms.iter().cloned().chain(level.iter().filter(|t| matches!(t, RType::Complex(..))).take(4).cloned()).collect();
    for c in callees {
        for a in &pool {
            for b in pool.iter().take(4) {
                for d in pool.iter().rev().take(3) {
                    level.push(RType::Complex(c.clone(), vec![a.clone(), b.clone(), d.clone()]));
                    level.push(RType::Complex(c.clone(), vec![b.clone(), d.clone(), a.clone(), b.clone()]));
                }
            }
        }
    }
    level
}

/// Source spelling of a type: tokens joined with rotating whitespace.
pub fn spell(t: &RType, variant: usize) -> String {
    let toks = t.tokens();
    let seps = ["", " ", "  ", "\n        ", " // c\n    "];
    let mut s = String::new();
    for (i, tk) in toks.iter().enumerate() {
        if i > 0 {
            s.push_str(match variant % 3 {
                0 => "",
                1 => " ",
                _ => seps[(variant / 3 + i) % seps.len()],
            });
        }
        s.push_str(tk);
    }
    s
}

pub fn grammar_for(t1: &str, t2: &str) -> String {
    format!(
        "start S1\nstruct S1 {{\n    x: $Tt\n    y: En\n}}\nstruct S2($Tt _: $Uu $Uu)\nenum En {{\n    V1($Tt)\n    V2 {{\n        z: $Tt\n        w: $Uu\n    }}\n    V3\n}}\nterminal Tok {{\n    $Tt: {t1}\n    $Uu: {t2}\n}}\n"
    )
}

/// Token texts of `toks[from..]` up to (not including) the first terminator at nesting depth 0.
fn type_tokens(toks: &[Tok], from: usize, stop: &dyn Fn(&Tok, usize) -> bool) -> (String, usize) {
    let mut depth = 0i32;
    let mut s = String::new();
    let mut j = from;
    while j < toks.len() {
        let t = &toks[j];
        if depth == 0 && stop(t, j) {
            break;
        }
        match t {
            Tok::Punct('<') | Tok::Punct('(') | Tok::Punct('[') => depth += 1,
            Tok::Punct('>') | Tok::Punct(')') | Tok::Punct(']') => depth -= 1,
            _ => {}
        }
        if depth < 0 {
            break;
        }
        match t {
            Tok::Ident(x) | Tok::Num(x) | Tok::Str(x) | Tok::Lifetime(x) => s.push_str(x),
            Tok::Punct(c) => s.push(*c),
        }
        j += 1;
    }
    (s, j)
}

fn find_seq(toks: &[Tok], pat: &[&str], from: usize) -> Option<usize> {
    'outer: for i in from..toks.len().saturating_sub(pat.len() - 1) {
        for (k, p) in pat.iter().enumerate() {
            let ok = match &toks[i + k] {
                Tok::Ident(x) => x == p,
                Tok::Punct(c) => p.len() == 1 && p.starts_with(*c),
                _ => false,
            };
            if !ok {
                continue 'outer;
            }
        }
        return Some(i);
    }
    None
}

/// Locates every use site of the two payload types in the emitted text: (site name, normalised type text, which terminal).
pub fn use_sites(emitted: &str) -> Result<Vec<(String, String, u8)>, String> {
    let toks = lex_rust(emitted)?;
    let comma = |t: &Tok, _j: usize| t.is(',');
    let close_paren = |t: &Tok, _j: usize| t.is(')') || t.is(',');
    let mut out = vec![];
    let site = |pat: &[&str], name: &str, which: u8, stop: &dyn Fn(&Tok, usize) -> bool, from: usize, out: &mut Vec<(String, String, u8)>| -> Result<usize, String> {
        let i = find_seq(&toks, pat, from).ok_or(format!("use site {name} not found"))?;
        let (s, j) = type_tokens(&toks, i + pat.len(), stop);
        out.push((name.to_string(), s, which));
        Ok(j)
    };
    // terminal enum
    let te = find_seq(&toks, &["pub", "enum", "Tok", "{"], 0).ok_or("terminal enum not found")?;
    site(&["Tt", "("], "terminal enum variant Tt", 0, &close_paren, te, &mut out)?;
    site(&["Uu", "("], "terminal enum variant Uu", 1, &close_paren, te, &mut out)?;
    // struct S1 { pub x: T, ... }
    let s1 = find_seq(&toks, &["pub", "struct", "S1", "{"], 0).ok_or("struct S1 not found")?;
    site(&["x", ":"], "named struct field S1.x", 0, &comma, s1, &mut out)?;
    // struct S2(pub T, pub U);
    let s2 = find_seq(&toks, &["pub", "struct", "S2", "("], 0).ok_or("struct S2 not found")?;
    let mut j = s2 + 4;
    if toks[j].is_ident("pub") {
        j += 1;
    }
    let (t, j2) = type_tokens(&toks, j, &close_paren);
    out.push(("tuple struct field S2.0".into(), t, 0));
    let mut j = j2 + 1;
    if toks[j].is_ident("pub") {
        j += 1;
    }
    let (t, _) = type_tokens(&toks, j, &close_paren);
    out.push(("tuple struct field S2.1".into(), t, 1));
    // enum En { V1(T,), V2 { z: T, w: U, }, V3, }
    let en = find_seq(&toks, &["pub", "enum", "En", "{"], 0).ok_or("enum En not found")?;
    site(&["V1", "("], "tuple variant field En::V1.0", 0, &close_paren, en, &mut out)?;
    let v2 = find_seq(&toks, &["V2", "{"], en).ok_or("variant V2 not found")?;
    site(&["z", ":"], "named variant field En::V2.z", 0, &comma, v2, &mut out)?;
    site(&["w", ":"], "named variant field En::V2.w", 1, &comma, v2, &mut out)?;
    // the internal node enum: the enum (other than Tok) that has variants S1(S1) and Tt(T)
    let node = find_seq(&toks, &["S1", "(", "S1", ")"], 0).ok_or("node enum not found")?;
    site(&["Tt", "("], "internal node enum variant Tt", 0, &close_paren, node, &mut out)?;
    site(&["Uu", "("], "internal node enum variant Uu", 1, &close_paren, node, &mut out)?;
    // fn try_into_tt_0(self) -> Result<T, Self>
    for (which, fname) in [(0u8, "try_into_tt_0"), (1u8, "try_into_uu_1")] {
        let f = find_seq(&toks, &["fn", fname], 0).ok_or(format!("fn {fname} not found"))?;
        let r = find_seq(&toks, &["Result", "<"], f).ok_or("Result< not found")?;
        // the type runs up to the `, Self >` that closes the Result
        let stop = |t: &Tok, j: usize| t.is(',') && toks.get(j + 1).map(|x| x.is_ident("Self")).unwrap_or(false) && toks.get(j + 2).map(|x| x.is('>')).unwrap_or(false);
        let (s, _) = type_tokens(&toks, r + 2, &stop);
        out.push((format!("helper fn {fname} return type"), s, which));
    }
    Ok(out)
}

/// Other grammar shapes around the same payload types: both terminals with the same type; a terminal
/// used only in a `_` field; a terminal used only in a named field of an enum variant; an unused terminal.
pub fn shaped_grammar(shape: usize, t1: &str, t2: &str) -> String {
    match shape % 4 {
        0 => format!("start S1\nstruct S1($Tt $Uu)\nterminal Tok {{\n    $Tt: {t1}\n    $Uu: {t1}\n}}\n"),
        1 => format!("start S1\nenum S1 {{\n    V1 {{\n        _: $Vv\n        a: $Tt\n    }}\n    V2(_: $Uu)\n}}\nterminal Tok {{\n    $Tt: {t1}\n    $Uu: {t2}\n    $Vv: {t2}\n}}\n"),
        2 => format!("start S1\nenum S1 {{\n    V1 {{\n        only_here: $Ww\n    }}\n    V2($Tt)\n}}\nterminal Tok {{\n    $Tt: {t2}\n    $Ww: {t1}\n    $Unused: {t1}\n}}\n"),
        _ => format!("terminal Tok {{\n    $Uu: {t2}\n    $Tt: {t1}\n}}\nstruct S2 {{\n    _: $Tt\n    b: $Uu\n    c: $Tt\n}}\nstart S2\n"),
    }
}

fn snake(name: &str) -> String {
    let mut out = String::new();
    for (i, c) in name.chars().enumerate() {
        if i > 0 && c.is_uppercase() {
            out.push('_');
        }
        out.push(c.to_ascii_lowercase());
    }
    out
}

/// Checks an arbitrary accepted source: every public use site through the type-definition oracle, and for
/// every terminal the internal node enum variant and the helper function's return type.
pub fn check_any_source(src: &str, acc: &mut Acc) -> Option<Finding> {
    let mk = |what: String, e: Value, o: Value| Finding::new("type_case", json!({"source": src}), what, e, o);
    let Ok((file, _)) = crate::reffront::parse_source(src) else { return None };
    let terminals: Vec<(String, String)> = file.items.iter().find_map(|i| if let crate::reffront::RItem::Terminal { variants, .. } = i { Some(variants.iter().map(|v| (v.name.name.clone(), v.ty.tokens().concat())).collect()) } else { None })?;
    let Gen::Ok(text) = generate(src) else { return None };
    match crate::typedefs::compare(src, &text) {
        Ok(None) => acc.inc("sources whose public type definitions were compared"),
        Ok(Some(d)) => return Some(mk(format!("{d} — {src:?}"), json!("the emitted definitions mirror the declarations"), json!(d))),
        Err(e) => {
            acc.inc("emitted texts whose use sites could not be located (oracle not applicable)");
            if acc.self_check_errors.len() < 3 {
                acc.self_check_errors.push(format!("C13 typedefs: {e}"));
            }
            return None;
        }
    }
    let Ok(toks) = lex_rust(&text) else { return None };
    let close_paren = |t: &Tok, _j: usize| t.is(')') || t.is(',');
    // the node enum: the non-public enum that has one variant per nonterminal and per terminal
    let first_nt = file.items.iter().find_map(|i| match i { crate::reffront::RItem::Struct { name, .. } | crate::reffront::RItem::Enum { name, .. } => Some(name.name.clone()), _ => None })?;
    let node = find_seq(&toks, &[first_nt.as_str(), "(", first_nt.as_str(), ")"], 0);
    for (idx, (name, want)) in terminals.iter().enumerate() {
        if let Some(node) = node {
            if let Some(i) = find_seq(&toks, &[name.as_str(), "("], node) {
                let (got, _) = type_tokens(&toks, i + 2, &close_paren);
                acc.inc("use sites compared");
                if got != *want {
                    return Some(mk(format!("internal node enum variant {name} carries `{got}`, declared `{want}` — {src:?}"), json!(want), json!(got)));
                }
            }
        }
        let fname = format!("try_into_{}_{idx}", snake(name));
        if let Some(f) = find_seq(&toks, &["fn", fname.as_str()], 0) {
            if let Some(r) = find_seq(&toks, &["Result", "<"], f) {
                let stop = |t: &Tok, j: usize| t.is(',') && toks.get(j + 1).map(|x| x.is_ident("Self")).unwrap_or(false) && toks.get(j + 2).map(|x| x.is('>')).unwrap_or(false);
                let (got, _) = type_tokens(&toks, r + 2, &stop);
                acc.inc("use sites compared");
                if got != *want {
                    return Some(mk(format!("helper function {fname} returns `{got}`, declared `{want}` — {src:?}"), json!(want), json!(got)));
                }
            }
        }
    }
    None
}

pub fn check_pair(t1: &RType, t2: &RType, variant: usize, acc: &mut Acc) -> Option<Finding> {
    // the other grammar shapes first (generic oracle), then the 12-site grammar
    for shape in 0..4 {
        if (variant + shape) % 2 == 0 || variant % 16 == 0 {
            let src = shaped_grammar(shape, &spell(t1, variant + shape), &spell(t2, variant + 1));
            if let Some(f) = check_any_source(&src, acc) {
                return Some(f);
            }
        }
    }
    let src = grammar_for(&spell(t1, variant), &spell(t2, variant + 1));
    let want = [t1.tokens().concat(), t2.tokens().concat()];
    let mk = |what: String, e: Value, o: Value| Finding::new("type_case", json!({"source": src}), what, e, o);
    match generate(&src) {
        Gen::Ok(text) => match use_sites(&text) {
            Err(e) => {
                acc.inc("emitted texts whose use sites could not be located (oracle not applicable)");
                if acc.self_check_errors.len() < 3 {
                    acc.self_check_errors.push(format!("C13 extractor: {e}"));
                }
                None
            }
            Ok(sites) => {
                acc.add("use sites compared", sites.len() as u64);
                for (name, got, which) in sites {
                    if got != want[which as usize] {
                        return Some(mk(format!("the payload type at use site '{name}' is `{got}`, declared `{}` — {src:?}", want[which as usize]), json!(want[which as usize]), json!(got)));
                    }
                }
                None
            }
        },
        other => Some(mk(format!("a grammar with payload types `{}` / `{}` was not accepted: {}", want[0], want[1], other.describe()), json!("Ok"), json!(other.describe()))),
    }
}

const REAL_TYPES: [&str; 12] = [
    "Vec<Option<u8>>",
    "std::collections::BTreeMap<String, Vec<u8>>",
    "()",
    "Box<Box<Box<u8>>>",
    "std::result::Result<(), Vec<()>>",
    "core::option::Option<std::string::String>",
    "std::collections::HashMap<std::collections::BTreeSet<u8>, Option<Vec<Option<()>>>>",
    "crate::Pair<crate::Pair<u8, ()>, Vec<u16>>",
    "std::marker::PhantomData<fn()>",
    "crate::Pair<(), ()>",
    "std::rc::Rc<std::cell::RefCell<Vec<String>>>",
    "u64",
];

fn real_type_units() -> Vec<(String, CompileUnit)> {
    let mut out: Vec<(String, CompileUnit)> = vec![];
    for (k, ty) in REAL_TYPES.iter().enumerate() {
        if ty.contains("fn()") {
            continue; // not expressible in the Kiki type syntax
        }
        let i = out.len(); // file names carry the unit index, so that rustc errors can be attributed
        let other = REAL_TYPES[(k + 1) % REAL_TYPES.len()];
        let other = if other.contains("fn()") { "u64" } else { other };
        let src = grammar_for(ty, other);
        if let Gen::Ok(text) = generate(&src) {
            let client = format!(
                "use super::g{i} as g;\nfn same<T>(_: &T, _: &T) {{}}\nfn check(t: g::Tok, s1: g::S1, s2: g::S2, en: g::En) {{\n    let a: {ty} = crate::any();\n    let b: {other} = crate::any();\n    match t {{ g::Tok::Tt(p) => same(&p, &a), g::Tok::Uu(p) => same(&p, &b) }}\n    same(&s1.x, &a);\n    same(&s2.0, &a);\n    same(&s2.1, &b);\n    match en {{ g::En::V1(p) => same(&p, &a), g::En::V2 {{ z, w }} => {{ same(&z, &a); same(&w, &b); }} g::En::V3 => {{}} }}\n}}\n"
            );
            out.push((src, CompileUnit { files: vec![(format!("g{i}.rs"), text), (format!("c{i}.rs"), client)], decl: format!("#[path = \"g{i}.rs\"] pub mod g{i};\n#[path = \"c{i}.rs\"] pub mod c{i};"), main_call: String::new() }));
        }
    }
    out
}

pub fn run(ctx: &Ctx) -> Outcome {
    let mut out = Outcome::new("exploration");
    let (atoms, callees, depth): (Vec<RType>, Vec<Vec<String>>, usize) = match ctx.tier {
        Tier::Quick => (
            vec![RType::Unit, RType::Path(path("a")), RType::Path(path("B")), RType::Path(path("c9")), RType::Path(path("a::B")), RType::Path(path("u8::_x")), RType::Path(path("B::c9::a")), RType::Path(path("c9::c9::c9::c9"))],
            vec![path("a"), path("B::c9")],
            2,
        ),
        Tier::Thorough => (
            vec![RType::Unit, RType::Path(path("a")), RType::Path(path("B")), RType::Path(path("c9")), RType::Path(path("a::B")), RType::Path(path("B::a")), RType::Path(path("B::c9::a")), RType::Path(path("c9::c9::c9")), RType::Path(path("a::a")), RType::Path(path("_x::B"))],
            vec![path("a"), path("B::c9"), path("c9::a::B")],
            2,
        ),
    };
    let mut all = types(&atoms, &callees, depth);
    // a chain of deeper nestings
    let mut deep = RType::Unit;
    for d in 0..ctx.tier.pick(12, 40) {
        deep = RType::Complex(if d % 2 == 0 { path("a::B") } else { path("c9") }, if d % 3 == 0 { vec![deep.clone(), RType::Path(path("B"))] } else { vec![deep.clone()] });
        all.push(deep.clone());
    }
    // types that are large in one dimension: identifier length, path length, number of generic arguments,
    // nesting depth with two arguments per level, renderings beyond 100 / 255 / 4096 bytes
    {
        let long = |n: usize| -> String { format!("A{}", "a".repeat(n - 1)) };
        for n in [31usize, 32, 63, 64, 99, 100, 101, 127, 128, 255, 256, 300, 4096] {
            all.push(RType::Path(vec![long(n)]));
            all.push(RType::Complex(vec![long(n)], vec![RType::Unit, RType::Path(path("B"))]));
            all.push(RType::Complex(path("a::B"), vec![RType::Path(vec![long(n)]), RType::Path(vec![long(n), "c9".into()])]));
        }
        for k in [9usize, 10, 11, 16, 17, 32, 33, 64, 100, 257] {
            all.push(RType::Path((0..k).map(|i| format!("s{i}")).collect()));
            all.push(RType::Complex((0..k).map(|i| format!("s{i}")).collect(), vec![RType::Unit, RType::Unit]));
            all.push(RType::Complex(path("a"), (0..k).map(|i| if i % 3 == 0 { RType::Unit } else { RType::Path(vec![format!("P{i}")]) }).collect()));
            all.push(RType::Complex(path("B::c9"), (0..k).map(|i| RType::Complex(vec![format!("Q{i}")], vec![RType::Unit, RType::Path(path("a::B"))])).collect()));
        }
        for d in [16usize, 17, 24, 31, 32, 33, 48, 64, 100, 128, 200] {
            let mut x = RType::Unit;
            for l in 0..d {
                x = RType::Complex(vec![format!("g{}", l % 10)], vec![RType::Path(path("B")), x]);
            }
            all.push(x);
        }
        all.push(RType::Complex(path("std::collections::HashMap"), vec![RType::Path(path("std::string::String")), RType::Complex(path("std::vec::Vec"), vec![RType::Complex(path("std::option::Option"), vec![RType::Complex(path("std::collections::BTreeMap"), vec![RType::Path(path("u64")), RType::Path(path("std::string::String"))])])])]));
    }
    // path segments that mean something to Rust but nothing to Kiki: every Rust keyword (strict, reserved, weak) and
    // primitive type name in every position of a path, as a generic callee and as an argument (`pub` is left out: the
    // reader of the emitted definitions takes it for the visibility keyword, which it is)
    {
        const WORDS: &[&str] = &[
            "as", "break", "const", "continue", "crate", "dyn", "else", "extern", "false", "fn", "for", "if", "impl", "in", "let", "loop", "match", "mod", "move", "mut", "ref", "return", "self", "Self", "static", "super", "trait", "true", "type",
            "unsafe", "use", "where", "while", "async", "await", "abstract", "become", "box", "do", "final", "macro", "override", "priv", "try", "typeof", "unsized", "virtual", "yield", "union", "macro_rules", "raw", "r", "str", "bool", "char", "u8", "usize", "f64",
            "String", "Vec", "Option", "Box", "_x", "__", "_0",
        ];
        for w in WORDS {
            let w = w.to_string();
            all.push(RType::Path(vec![w.clone()]));
            all.push(RType::Path(vec![w.clone(), "B".into()]));
            all.push(RType::Path(vec!["a".into(), w.clone()]));
            all.push(RType::Path(vec!["a".into(), w.clone(), "B".into()]));
            all.push(RType::Path(vec![w.clone(), w.clone(), "B".into()]));
            all.push(RType::Complex(vec![w.clone()], vec![RType::Unit]));
            all.push(RType::Complex(path("a::B"), vec![RType::Path(vec![w.clone()]), RType::Path(vec![w.clone(), w.clone()])]));
            all.push(RType::Complex(vec!["a".into(), w.clone()], vec![RType::Complex(vec![w.clone(), "c9".into()], vec![RType::Unit, RType::Path(vec![w.clone()])])]));
        }
    }
    let n = all.len();
    let accs: Vec<Acc> = (0..n)
        .into_par_iter()
        .map(|i| {
            let mut acc = Acc::default();
            let t1 = &all[i];
            let t2 = &all[(i * 7 + 3) % n];
            acc.inc("type expressions");
            if let Some(f) = check_pair(t1, t2, i, &mut acc) {
                acc.finding(f);
            }
            acc
        })
        .collect();
    let mut acc = Acc::default();
    for a in accs {
        acc.merge(a);
    }
    // lookups by name: every ordered pair of related terminal / nonterminal / variant / field names (names.rs);
    // the two terminals of that grammar have different payload types
    let name_sources = crate::names::relation_sources(ctx.tier.pick(2, 3));
    let name_accs: Vec<Acc> = name_sources
        .par_chunks(64)
        .map(|chunk| {
            let mut acc = Acc::default();
            for src in chunk {
                acc.inc("name-relation sources");
                if let Some(f) = check_any_source(src, &mut acc) {
                    acc.finding(f);
                }
            }
            acc
        })
        .collect();
    for a in name_accs {
        acc.merge(a);
    }
    // rustc: type identity for real types
    let units = real_type_units();
    let (errs, secs) = check_compile(&units.iter().map(|u| CompileUnit { files: u.1.files.clone(), decl: u.1.decl.clone(), main_call: String::new() }).collect::<Vec<_>>(), "pub struct Pair<A, B>(pub A, pub B);\npub fn any<T>() -> T { unreachable!() }\n", 12, "c13");
    for (i, e) in errs.iter().enumerate() {
        acc.inc("real types checked by rustc");
        if let Some(e) = e {
            acc.finding(Finding::new("type_case", json!({"source": units[i].0}), format!("rustc: the emitted types do not denote the declared Rust types: {e}"), json!("type identity at every use site"), json!(e)));
        }
    }
    let located_all = acc.get("emitted texts whose use sites could not be located (oracle not applicable)") == 0;
    out.cov("evaluations", json!(n as u64 + units.len() as u64 + name_sources.len() as u64));
    out.cov("distinct_nontrivial", json!(n as u64 - 1));
    out.cov("rule", json!(format!("all type expressions of nesting depth <= {depth} over {} atoms (unit, paths of 1-3 segments) and {} generic callees with 1 or 2 arguments (3 and 4 over the atoms), plus a chain of deeper nestings; each is spelt with rotating whitespace/comments between its tokens and declared as the payload of terminal Tt (terminal Uu gets another type of the space) in a grammar exposing 12 use sites and in four further grammar shapes (same type for two terminals, a terminal used only in a `_` field, only in a named variant field, unused; checked through the general type-definition oracle); plus the name-relation space (all ordered pairs of related names in 16 role pairs, two terminals with different payload types); distinct = distinct type expressions, non-trivial = not the unit type", atoms.len(), callees.len())));
    out.cov("exhaustive", json!(true));
    out.cov("use_sites_compared", json!(acc.get("use sites compared")));
    out.cov("all_use_sites_located", json!(located_all));
    out.cov("real_types_checked_by_rustc", json!(units.len()));
    out.cov("rustc_seconds", json!((secs * 10.0).round() / 10.0));
    out.cov("histogram", json!(acc.counters));
    out.cov("notes", json!(acc.self_check_errors));
    out.cov("samples", json!([grammar_for(&spell(&all[n / 2], 5), &spell(&all[n / 3], 1))]));
    if !located_all && acc.findings.is_empty() {
        machinery_error(format!("C13: the use sites of {} emitted texts could not be located ({:?})", acc.get("emitted texts whose use sites could not be located (oracle not applicable)"), acc.self_check_errors.first()));
    }
    out.violating_cases = acc.violating;
    out.findings = acc.findings;
    out.assumptions = vec!["token-for-token equality is tested on the whitespace-free concatenation of the tokens (unambiguous for this syntax)".into()];
    out
}

pub fn replay(kind: &str, case: &Value) -> Option<Vec<Finding>> {
    if kind != "type_case" {
        return None;
    }
    let src = case["source"].as_str()?;
    // recover the declared types from the source with the reference front end
    let (file, _) = crate::reffront::parse_source(src).ok()?;
    let mut tys = vec![];
    for it in &file.items {
        if let crate::reffront::RItem::Terminal { variants, .. } = it {
            for v in variants {
                tys.push(v.ty.tokens().concat());
            }
        }
    }
    let Gen::Ok(text) = generate(src) else { return Some(vec![Finding::new("type_case", case.clone(), "not accepted".to_string(), json!("Ok"), json!("Err"))]) };
    let sites = use_sites(&text).ok()?;
    for (name, got, which) in sites {
        if tys.get(which as usize) != Some(&got) {
            return Some(vec![Finding::new("type_case", case.clone(), format!("use site '{name}' has `{got}`"), json!(tys.get(which as usize)), json!(got))]);
        }
    }
    Some(vec![])
}
