//! R-sha256: a small, independent SHA-256 (FIPS 180-4), used as the reference for C15
//! and for keying known findings. Shares nothing with the `sha256`/`sha2` crates kiki uses.

const K: [u32; 64] = [
    0x428a2f98, 0x71374491, 0xb5c0fbcf, 0xe9b5dba5, 0x3956c25b, 0x59f111f1, 0x923f82a4, 0xab1c5ed5,
    0xd807aa98, 0x12835b01, 0x243185be, 0x550c7dc3, 0x72be5d74, 0x80deb1fe, 0x9bdc06a7, 0xc19bf174,
    0xe49b69c1, 0xefbe4786, 0x0fc19dc6, 0x240ca1cc, 0x2de92c6f, 0x4a7484aa, 0x5cb0a9dc, 0x76f988da,
    0x983e5152, 0xa831c66d, 0xb00327c8, 0xbf597fc7, 0xc6e00bf3, 0xd5a79147, 0x06ca6351, 0x14292967,
    0x27b70a85, 0x2e1b2138, 0x4d2c6dfc, 0x53380d13, 0x650a7354, 0x766a0abb, 0x81c2c92e, 0x92722c85,
    0xa2bfe8a1, 0xa81a664b, 0xc24b8b70, 0xc76c51a3, 0xd192e819, 0xd6990624, 0xf40e3585, 0x106aa070,
    0x19a4c116, 0x1e376c08, 0x2748774c, 0x34b0bcb5, 0x391c0cb3, 0x4ed8aa4a, 0x5b9cca4f, 0x682e6ff3,
    0x748f82ee, 0x78a5636f, 0x84c87814, 0x8cc70208, 0x90befffa, 0xa4506ceb, 0xbef9a3f7, 0xc67178f2,
];

pub fn digest(data: &[u8]) -> [u8; 32] {
    let mut h: [u32; 8] = [
        0x6a09e667, 0xbb67ae85, 0x3c6ef372, 0xa54ff53a, 0x510e527f, 0x9b05688c, 0x1f83d9ab,
        0x5be0cd19,
    ];
    let mut msg = data.to_vec();
    let bit_len = (data.len() as u64).wrapping_mul(8);
    msg.push(0x80);
    while msg.len() % 64 != 56 {
        msg.push(0);
    }
    msg.extend_from_slice(&bit_len.to_be_bytes());
    for chunk in msg.chunks(64) {
        let mut w = [0u32; 64];
        for i in 0..16 {
            w[i] = u32::from_be_bytes([chunk[4 * i], chunk[4 * i + 1], chunk[4 * i + 2], chunk[4 * i + 3]]);
        }
        for i in 16..64 {
            let s0 = w[i - 15].rotate_right(7) ^ w[i - 15].rotate_right(18) ^ (w[i - 15] >> 3);
            let s1 = w[i - 2].rotate_right(17) ^ w[i - 2].rotate_right(19) ^ (w[i - 2] >> 10);
            w[i] = w[i - 16].wrapping_add(s0).wrapping_add(w[i - 7]).wrapping_add(s1);
        }
        let [mut a, mut b, mut c, mut d, mut e, mut f, mut g, mut hh] = h;
        for i in 0..64 {
            let s1 = e.rotate_right(6) ^ e.rotate_right(11) ^ e.rotate_right(25);
            let ch = (e & f) ^ (!e & g);
            let t1 = hh.wrapping_add(s1).wrapping_add(ch).wrapping_add(K[i]).wrapping_add(w[i]);
            let s0 = a.rotate_right(2) ^ a.rotate_right(13) ^ a.rotate_right(22);
            let maj = (a & b) ^ (a & c) ^ (b & c);
            let t2 = s0.wrapping_add(maj);
            hh = g;
            g = f;
            f = e;
            e = d.wrapping_add(t1);
            d = c;
            c = b;
            b = a;
            a = t1.wrapping_add(t2);
        }
        for (x, y) in h.iter_mut().zip([a, b, c, d, e, f, g, hh]) {
            *x = x.wrapping_add(y);
        }
    }
    let mut out = [0u8; 32];
    for (i, x) in h.iter().enumerate() {
        out[4 * i..4 * i + 4].copy_from_slice(&x.to_be_bytes());
    }
    out
}

pub fn hex(data: &[u8]) -> String {
    digest(data).iter().map(|b| format!("{b:02x}")).collect()
}

/// Self-check against the FIPS test vectors (a failure is a machinery error, never a verdict).
pub fn self_check() -> Result<(), String> {
    let vectors: [(&[u8], &str); 3] = [
        (b"", "e3b0c44298fc1c149afbf4c8996fb92427ae41e4649b934ca495991b7852b855"),
        (b"abc", "ba7816bf8f01cfea414140de5dae2223b00361a396177a9cb410ff61f20015ad"),
        (
            b"abcdbcdecdefdefgefghfghighijhijkijkljklmklmnlmnomnopnopq",
            "248d6a61d20638b8e5c026930c3e6039a33ce45964ff2167f6ecedd419db06c1",
        ),
    ];
    for (input, expected) in vectors {
        if hex(input) != expected {
            return Err(format!("R-sha256 self-check failed on {:?}", String::from_utf8_lossy(input)));
        }
    }
    let million_a = vec![b'a'; 1_000_000];
    if hex(&million_a) != "cdc76e5c9914fb9281a1c7e284d73e67f1809a48a497200e046d39ccc7112cd0" {
        return Err("R-sha256 self-check failed on 10^6 x 'a'".into());
    }
    Ok(())
}
