//! C06 — emitted type definitions and parse signature mirror the declarations.
//! For every grammar of the presentation space a *client module* is generated that must type-check
//! against the emitted module (constructs, destructures without `..`, matches without wildcard, from a
//! sibling module, binds parse to the expected fn type) and then runs (declaration order through
//! derive(Debug) and derive(PartialOrd)).

use crate::common::*;
use crate::gramsweep::{generate, Case, Gen, Spec};
use crate::refgram::*;
use crate::rustrun::{compile_units, CompileUnit};
use crate::scopes::*;
use serde_json::{json, Value};
use std::collections::BTreeSet;

const DERIVES: &str = "#[derive(Debug, PartialEq, PartialOrd)]";

fn crate_prelude(max_t: usize) -> String {
    let mut s = String::new();
    for i in 0..max_t.max(1) {
        s += &format!("#[derive(Debug, PartialEq, PartialOrd, Clone)] pub struct P{i}(pub u32);\n");
    }
    s += "pub struct MyIter<T>(pub Vec<T>);\nimpl<T> IntoIterator for MyIter<T> { type Item = T; type IntoIter = std::vec::IntoIter<T>; fn into_iter(self) -> Self::IntoIter { self.0.into_iter() } }\n";
    s += "pub fn any<T>() -> T { unreachable!() }\n";
    s
}

pub fn client_presentation(mut pres: Presentation, g: &Grammar) -> Presentation {
    pres.attribute = DERIVES.into();
    for i in 0..g.t {
        pres.names.insert(format!("p{i}"), format!("crate::P{i}"));
    }
    pres
}

/// The Rust type a field symbol must have in the emitted definitions.
fn field_type(case: &Case, s: &Sym, m: &str) -> String {
    match s {
        Sym::N(b) => format!("Box<{m}::{}>", case.rendered.names.nonterminals[*b as usize]),
        Sym::T(b) => format!("crate::P{b}"),
    }
}

/// Minimal inhabitant of each productive nonterminal: (Rust expression, expected {:?} rendering).
fn inhabitants(case: &Case, m: &str) -> Vec<Option<(String, String)>> {
    let g = &case.g;
    let mut inh: Vec<Option<(String, String)>> = vec![None; g.n];
    loop {
        let mut changed = false;
        for (pi, (l, _)) in g.prods.iter().enumerate() {
            if inh[*l as usize].is_some() {
                continue;
            }
            if let Some(v) = production_value(case, pi, &inh, m, 0) {
                inh[*l as usize] = Some(v);
                changed = true;
            }
        }
        if !changed {
            return inh;
        }
    }
}

/// Value of one production given inhabitants of the nonterminals: (expression, rendering). `seed` varies payload values.
fn production_value(case: &Case, pi: usize, inh: &[Option<(String, String)>], m: &str, seed: u32) -> Option<(String, String)> {
    let (_, rhs) = &case.g.prods[pi];
    let style = &case.pres.styles[pi];
    let (ty, variant) = &case.rendered.names.constructors[pi];
    let path = match variant {
        Some(v) => format!("{m}::{ty}::{v}"),
        None => format!("{m}::{ty}"),
    };
    let shown = variant.clone().unwrap_or_else(|| ty.clone());
    let mut exprs = vec![];
    let mut shows = vec![];
    for (i, s) in rhs.iter().enumerate() {
        if style.skipped(i) {
            continue;
        }
        let (e, d) = match s {
            Sym::T(b) => {
                let val = seed + 10 * (i as u32 + 1) + *b as u32;
                (format!("crate::P{b}({val})"), format!("P{b}({val})"))
            }
            Sym::N(b) => {
                let (e, d) = inh[*b as usize].clone()?;
                (format!("Box::new({e})"), d)
            }
        };
        match &case.rendered.names.fields[pi][i] {
            Some(f) if style.named => {
                exprs.push(format!("{f}: {e}"));
                shows.push(format!("{f}: {d}"));
            }
            _ => {
                exprs.push(e);
                shows.push(d);
            }
        }
    }
    if exprs.is_empty() {
        return Some((path, shown));
    }
    if style.named {
        Some((format!("{path} {{ {} }}", exprs.join(", ")), format!("{shown} {{ {} }}", shows.join(", "))))
    } else {
        Some((format!("{path}({})", exprs.join(", ")), format!("{shown}({})", shows.join(", "))))
    }
}

/// Generates the client module for module `i`.
pub fn client_source(case: &Case, i: usize) -> String {
    let m = "g";
    let g = &case.g;
    let names = &case.rendered.names;
    let tok = &names.terminal_enum;
    let mut s = format!("use super::g{i} as g;\nuse crate::any;\n");
    // terminal enum: construct every variant with its declared payload type, match without wildcard
    s += "fn terminal_enum_construct() {\n";
    for (j, t) in names.terminals.iter().enumerate() {
        s += &format!("    let _: {m}::{tok} = {m}::{tok}::{t}(any::<crate::P{j}>());\n");
    }
    s += "}\n";
    s += &format!("fn terminal_enum_match(x: {m}::{tok}) {{\n    match x {{\n");
    for (j, t) in names.terminals.iter().enumerate() {
        s += &format!("        {m}::{tok}::{t}(p) => {{ let _: crate::P{j} = p; }}\n");
    }
    s += "    }\n}\n";
    // nonterminals
    for nt in 0..g.n {
        let name = &names.nonterminals[nt];
        let ps: Vec<usize> = g.prods.iter().enumerate().filter(|(_, p)| p.0 as usize == nt).map(|(k, _)| k).collect();
        let is_struct = ps.len() == 1 && case.pres.single_as_struct[nt];
        let pattern_and_checks = |pi: usize| -> (String, String, String) {
            // (construction expression, pattern, type assertions on the bound variables)
            let rhs = &g.prods[pi].1;
            let style = &case.pres.styles[pi];
            let (ty, variant) = &names.constructors[pi];
            let path = match variant {
                Some(v) => format!("{m}::{ty}::{v}"),
                None => format!("{m}::{ty}"),
            };
            let used: Vec<usize> = (0..rhs.len()).filter(|k| !style.skipped(*k)).collect();
            if used.is_empty() {
                return (path.clone(), path, String::new());
            }
            let mut cons = vec![];
            let mut pats = vec![];
            let mut checks = String::new();
            for k in &used {
                let fty = field_type(case, &rhs[*k], m);
                let var = format!("b{k}");
                checks += &format!(" let _: {fty} = {var};");
                match &names.fields[pi][*k] {
                    Some(f) if style.named => {
                        cons.push(format!("{f}: any::<{fty}>()"));
                        pats.push(format!("{f}: {var}"));
                    }
                    _ => {
                        cons.push(format!("any::<{fty}>()"));
                        pats.push(var);
                    }
                }
            }
            if style.named {
                (format!("{path} {{ {} }}", cons.join(", ")), format!("{path} {{ {} }}", pats.join(", ")), checks)
            } else {
                (format!("{path}({})", cons.join(", ")), format!("{path}({})", pats.join(", ")), checks)
            }
        };
        if is_struct {
            let (cons, pat, checks) = pattern_and_checks(ps[0]);
            s += &format!("fn construct_{name}() -> {m}::{name} {{ {cons} }}\n");
            s += &format!("fn destructure_{name}(x: {m}::{name}) {{ let {pat} = x;{checks} }}\n");
            // direct field access from a sibling module (fields must be pub)
            let rhs = &g.prods[ps[0]].1;
            let style = &case.pres.styles[ps[0]];
            let mut tuple_pos = 0;
            s += &format!("fn access_{name}(x: &{m}::{name}) {{");
            for k in 0..rhs.len() {
                if style.skipped(k) {
                    continue;
                }
                let fty = field_type(case, &rhs[k], m);
                match &names.fields[ps[0]][k] {
                    Some(f) if style.named => s += &format!(" let _: &{fty} = &x.{f};"),
                    _ => {
                        s += &format!(" let _: &{fty} = &x.{tuple_pos};");
                        tuple_pos += 1;
                    }
                }
            }
            s += " }\n";
        } else {
            s += &format!("fn construct_{name}() {{\n");
            for pi in &ps {
                let (cons, _, _) = pattern_and_checks(*pi);
                s += &format!("    let _: {m}::{name} = {cons};\n");
            }
            s += "}\n";
            s += &format!("fn match_{name}(x: {m}::{name}) {{\n    match x {{\n");
            for pi in &ps {
                let (_, pat, checks) = pattern_and_checks(*pi);
                s += &format!("        {pat} => {{{checks} }}\n");
            }
            s += "    }\n}\n";
        }
    }
    // the parse signature, for a Vec and for a hand-written IntoIterator
    let start = &names.nonterminals[0];
    s += &format!("fn parse_signature() {{\n    let _: fn(Vec<{m}::{tok}>) -> Result<{m}::{start}, Option<{m}::{tok}>> = {m}::parse::<Vec<{m}::{tok}>>;\n    let _: fn(crate::MyIter<{m}::{tok}>) -> Result<{m}::{start}, Option<{m}::{tok}>> = {m}::parse::<crate::MyIter<{m}::{tok}>>;\n    let _: fn(std::iter::Empty<{m}::{tok}>) -> Result<{m}::{start}, Option<{m}::{tok}>> = {m}::parse::<std::iter::Empty<{m}::{tok}>>;\n}}\n");
    // run time: declaration order of fields (Debug) and of variants (PartialOrd)
    let inh = inhabitants(case, m);
    s += &format!("pub fn order_check() {{\n");
    for nt in 0..g.n {
        let ps: Vec<usize> = g.prods.iter().enumerate().filter(|(_, p)| p.0 as usize == nt).map(|(k, _)| k).collect();
        let mut prev: Option<(String, String)> = None;
        for pi in ps {
            if let Some((expr, show)) = production_value(case, pi, &inh, m, 0) {
                s += &format!("    {{ let v = {expr}; let d = format!(\"{{:?}}\", v); println!(\"O|{i}|debug|{{}}|{{}}\", if d == {show:?} {{ 1 }} else {{ 0 }}, d); }}\n");
                if let Some((pe, ps_)) = &prev {
                    s += &format!("    {{ let a = {pe}; let b = {expr}; println!(\"O|{i}|variant-order|{{}}|{{}}\", if a.partial_cmp(&b) == Some(std::cmp::Ordering::Less) {{ 1 }} else {{ 0 }}, {:?}); }}\n", format!("{ps_} < {show}"));
                }
                prev = Some((expr, show));
            }
        }
    }
    // terminal enum variant order
    for j in 1..names.terminals.len() {
        s += &format!(
            "    {{ let a = {m}::{tok}::{}(crate::P{}(0)); let b = {m}::{tok}::{}(crate::P{}(0)); println!(\"O|{i}|terminal-order|{{}}|{} < {}\", if a.partial_cmp(&b) == Some(std::cmp::Ordering::Less) {{ 1 }} else {{ 0 }}); }}\n",
            names.terminals[j - 1],
            j - 1,
            names.terminals[j],
            j,
            names.terminals[j - 1],
            names.terminals[j]
        );
    }
    s += "}\n";
    s
}

pub struct ClientCase {
    pub case: Case,
    pub text: String,
}

fn collect(specs: &[Spec]) -> (Vec<ClientCase>, Vec<Value>) {
    let mut out = vec![];
    let mut scopes = vec![];
    for spec in specs {
        let before = out.len();
        let mut n = 0u64;
        let mut add = |gr: Grammar, pres: Presentation, out: &mut Vec<ClientCase>| {
            n += 1;
            let pres = client_presentation(pres, &gr);
            let case = Case::new(gr, pres);
            if let Gen::Ok(text) = generate(&case.rendered.source) {
                out.push(ClientCase { case, text });
            }
        };
        match spec {
            Spec::PSpace { max_fields, recursion } => {
                for p in crate::pspace::patterns(*max_fields, *recursion).into_iter().chain(crate::pspace::long_patterns(crate::pspace::LONG_MAX)) {
                    let (gr, pres, _) = crate::pspace::build(&p);
                    add(gr, pres, &mut out);
                }
            }
            Spec::G(sc) => {
                let rhss = all_rhs(sc.n, sc.t, sc.k);
                let mut idx = 0u64;
                for unit in work_units(sc, u128::MAX) {
                    for_each_completion(sc, &rhss, &unit, &mut |gr| {
                        let pres = Presentation::rotating(&gr, idx);
                        add(gr, pres, &mut out);
                        idx += 1;
                    });
                }
            }
            Spec::Nbh { seed, k, cap } => {
                let sg = seeds().into_iter().find(|(nm, _)| nm == seed).expect("seed").1;
                let (list, _) = neighbourhood(&sg, *k, *cap);
                for (j, gr) in list.into_iter().enumerate() {
                    let pres = if j == 0 { Presentation::plain(&gr) } else { Presentation::rotating(&gr, j as u64) };
                    add(gr, pres, &mut out);
                }
            }
            Spec::Files { .. } => {
                for (_, src) in crate::corpus::accepted_repo_sources() {
                    if let Some(c) = crate::gramsweep::case_from_source(&src) {
                        let mut pres = c.pres.clone();
                        pres.names.retain(|k, _| !(k.starts_with('p') || k.starts_with('a')));
                        add(c.g.clone(), pres, &mut out);
                    }
                }
            }
            Spec::GP(sc) => {
                let rhss = all_rhs(sc.n, sc.t, sc.k);
                let mut grs = vec![];
                for unit in work_units(sc, u128::MAX) {
                    for_each_completion(sc, &rhss, &unit, &mut |gr| grs.push(gr));
                }
                for gr in grs {
                    let mut ps = vec![];
                    for_each_presentation(&gr, &mut |pres| ps.push(pres));
                    for pres in ps {
                        add(gr.clone(), pres, &mut out);
                    }
                }
            }
            Spec::Scaled { deep } => {
                for (i, f) in crate::scaled::families(*deep).iter().enumerate() {
                    add(f.g.clone(), crate::scaled::presentation(f, i), &mut out);
                }
            }
            Spec::Names { extra } => {
                for nc in crate::names::relation_cases(*extra) {
                    if nc.duplicate_fields {
                        continue; // two equal field names in one struct: not a Rust type at all
                    }
                    if let Some(c) = crate::gramsweep::case_from_source(&nc.source) {
                        let mut pres = c.pres.clone();
                        pres.names.retain(|k, _| !(k.starts_with('p') || k.starts_with('a')));
                        add(c.g.clone(), pres, &mut out);
                    }
                }
            }
        }
        scopes.push(json!({"name": spec.name(), "size": n, "accepted_modules": out.len() - before, "completed": true, "exhaustive": true}));
    }
    (out, scopes)
}

fn evaluate(cases: &[ClientCase], tag: &str) -> (Vec<Vec<Finding>>, u64, u64, f64) {
    let max_t = cases.iter().map(|c| c.case.g.t).max().unwrap_or(1);
    let units: Vec<CompileUnit> = cases
        .iter()
        .enumerate()
        .map(|(i, c)| CompileUnit {
            files: vec![(format!("g{i}.rs"), c.text.clone()), (format!("c{i}.rs"), client_source(&c.case, i))],
            decl: format!("#[path = \"g{i}.rs\"] pub mod g{i};\n#[path = \"c{i}.rs\"] pub mod c{i};"),
            main_call: format!("    c{i}::order_check();"),
        })
        .collect();
    let (errs, stdout, secs) = compile_units(&units, &crate_prelude(max_t), 120, tag, true);
    let mut findings: Vec<Vec<Finding>> = vec![vec![]; cases.len()];
    for (i, e) in errs.iter().enumerate() {
        if let Some(e) = e {
            let c = &cases[i];
            findings[i].push(Finding::new(
                "client_case",
                c.case.to_json(),
                format!("a client written against the declarations does not type-check against the emitted module: {e}"),
                json!("the client (construct, destructure without `..`, match without wildcard, field access from a sibling module, parse bound to fn(_) -> Result<Start, Option<Tok>>) compiles"),
                json!(e),
            ));
        }
    }
    let mut order_checks = 0u64;
    let mut order_ok = 0u64;
    for line in stdout.lines() {
        let p: Vec<&str> = line.splitn(5, '|').collect();
        if p.len() == 5 && p[0] == "O" {
            order_checks += 1;
            let Ok(i) = p[1].parse::<usize>() else { continue };
            if p[3] == "1" {
                order_ok += 1;
            } else if i < cases.len() && findings[i].is_empty() {
                findings[i].push(Finding::new(
                    "client_case",
                    cases[i].case.to_json(),
                    format!("declaration order is not mirrored ({}): {}", p[2], p[4]),
                    json!("fields print in declaration order (derive(Debug)); variants compare in declaration order (derive(PartialOrd))"),
                    json!(format!("{}: {}", p[2], p[4])),
                ));
            }
        }
    }
    (findings, order_checks, order_ok, secs)
}

pub fn run(ctx: &Ctx) -> Outcome {
    let mut out = Outcome::new("exploration");
    let specs: Vec<Spec> = match ctx.tier {
        Tier::Quick => vec![Spec::PSpace { max_fields: 3, recursion: false }, Spec::Names { extra: 1 }, Spec::Scaled { deep: false }],
        Tier::Thorough => {
            let mut v = vec![Spec::PSpace { max_fields: 3, recursion: true }, Spec::Names { extra: 1 }, Spec::Scaled { deep: true }, crate::gramsweep::g(2, 2, 3, 2)];
            v.extend(crate::gramsweep::all_seed_nbh(1, 1, 600));
            v
        }
    };
    let (cases, scopes) = collect(&specs);
    let (findings, order_checks, order_ok, secs) = evaluate(&cases, "c06");
    let failing = findings.iter().filter(|f| !f.is_empty()).count();
    for fs in findings {
        out.absorb(fs);
    }
    // ---- text-level oracle on a broader corpus: any accepted source, not only the client-able presentations
    let mut texts: Vec<String> = crate::corpus::accepted_repo_sources().into_iter().map(|(_, s)| s).collect();
    for c in &cases {
        texts.push(c.case.rendered.source.clone());
    }
    {
        let sc = Scope { n: 2, t: 2, p: 3, k: 2, symmetry: false, only_cyclic: false };
        let rhss = all_rhs(sc.n, sc.t, sc.k);
        let mut idx = 0u64;
        for unit in work_units(&sc, u128::MAX) {
            for_each_completion(&sc, &rhss, &unit, &mut |gr| {
                idx += 1;
                for v in 0..2u64 {
                    let mut pres = Presentation::rotating(&gr, idx.wrapping_mul(31).wrapping_add(v * 977));
                    pres.attribute = if v == 0 { String::new() } else { "#[derive(Debug)]\n#[allow(dead_code)]".into() };
                    pres.payload = if v == 0 { "()".into() } else { "std::vec::Vec<(u8, crate::X)>".replace("(u8, crate::X)", "std::option::Option<u8>") };
                    texts.push(Case::new(gr.clone(), pres).rendered.source);
                }
            });
        }
    }
    {
        // the valid files among all files of <= 3 items of the C10 space
        let items = crate::c10::item_alphabet();
        let n = items.len();
        for a in 0..n {
            for b in 0..n {
                let two = format!("{}\n{}", items[a], items[b]);
                if crate::reffront::parse_source(&two).map(|(f, _)| crate::reffront::violations(&f).iter().all(|v| matches!(v, crate::reffront::Violation::NoStartSymbol | crate::reffront::Violation::NoTerminalEnum | crate::reffront::Violation::UndefinedNonterminal(..) | crate::reffront::Violation::UndefinedTerminal(..)))).unwrap_or(false) {
                    for c in 0..n {
                        let src = format!("{two}\n{}", items[c]);
                        if crate::reffront::parse_source(&src).map(|(f, _)| crate::reffront::violations(&f).is_empty()).unwrap_or(false) {
                            texts.push(src);
                        }
                    }
                }
            }
        }
    }
    // interactions of grammar shape and presentation: every grammar of two tiny scopes under every presentation
    for sc in [Scope { n: 1, t: 2, p: 2, k: 2, symmetry: false, only_cyclic: false }, Scope { n: 2, t: 1, p: 2, k: 2, symmetry: false, only_cyclic: false }] {
        let rhss = all_rhs(sc.n, sc.t, sc.k);
        for unit in work_units(&sc, u128::MAX) {
            for_each_completion(&sc, &rhss, &unit, &mut |gr| {
                for_each_presentation(&gr, &mut |pres| texts.push(Case::new(gr.clone(), pres).rendered.source));
            });
        }
    }
    // every hostile name (the generator's helper names, their uniquified forms, trait and prelude-adjacent names) in
    // every role, and the uniquifier chains
    texts.extend(crate::c05::naming_sources());
    texts.extend(crate::c05::chain_sources());
    // every short identifier (underscore-initial, letter-less, with digits) in every naming role
    texts.extend(crate::c10::name_probe_files());
    // every ordered pair of related names (prefixes, case variants, ...) in every pair of roles
    texts.extend(crate::names::relation_sources(ctx.tier.pick(2, 3)));
    use rayon::prelude::*;
    let text_results: Vec<(bool, Option<Finding>, Option<String>)> = texts
        .par_iter()
        .map(|src| match generate(src) {
            Gen::Ok(emitted) => match crate::typedefs::compare(src, &emitted) {
                Ok(None) => (true, None, None),
                Ok(Some(d)) => (true, Some(Finding::new("typedef_case", json!({"source": src}), format!("the emitted type definitions do not mirror the declarations: {d} — {src:?}"), json!("names, order, pub, Box<T>, payload types, omitted `_` fields, unit-like forms, attributes and parse signature as declared"), json!(d))), None),
                Err(e) => (true, None, Some(e)),
            },
            _ => (false, None, None),
        })
        .collect();
    let mut text_compared = 0u64;
    let mut text_unreadable = 0u64;
    let mut unreadable_note = String::new();
    for (ok, f, e) in text_results {
        if ok {
            text_compared += 1;
        }
        if let Some(f) = f {
            out.push(f);
        }
        if let Some(e) = e {
            text_unreadable += 1;
            unreadable_note = e;
        }
    }
    if text_unreadable > 0 && out.findings.is_empty() {
        // (violations found in the texts that could be read are reported as such)
        machinery_error(format!("C06: the type definitions of {text_unreadable} emitted texts could not be read while {text_compared} could (last reason: {unreadable_note})"));
    }
    out.cov("text_level_sources_compared", json!(text_compared));
    out.cov("text_level_sources_unreadable (oracle not applicable)", json!({"count": text_unreadable, "last_reason": unreadable_note}));
    let distinct: BTreeSet<&String> = cases.iter().map(|c| &c.case.rendered.source).collect();
    out.cov("evaluations", json!(cases.len() as u64 + text_compared));
    out.cov("distinct_nontrivial", json!(distinct.len()));
    out.cov("rule", json!("one evaluation = one grammar presentation whose emitted module plus a generated client module is compiled by rustc and run; distinct = distinct grammar source texts; each is non-trivial: the client constructs and destructures every emitted type in exactly the declared shape; in addition a text-level oracle compares the emitted `pub struct|enum` items and the parse signature with the declarations for a broader corpus (repository grammars, G(2,2,3,2) under two presentations, all valid files of <=3 items of the C10 space, the name-relation space)"));
    out.cov("exhaustive", json!(true));
    out.cov("scopes", json!(scopes));
    out.cov("clients_failing", json!(failing));
    out.cov("run_time_order_checks", json!(order_checks));
    out.cov("run_time_order_checks_ok", json!(order_ok));
    out.cov("rustc_and_run_seconds", json!((secs * 10.0).round() / 10.0));
    let samples: Vec<Value> = take_samples(&(0..cases.len()).collect::<Vec<_>>(), 2, ctx.seed).into_iter().map(|i| json!({"source": cases[i].case.rendered.source, "client": client_source(&cases[i].case, i)})).collect();
    out.cov("samples", json!(samples));
    out.assumptions = vec!["rustc 1.95 type checker; derive(Debug)/derive(PartialOrd) semantics".into(), "fieldsets longer than 3 occur only in the seed grammars".into()];
    out
}

pub fn replay(kind: &str, case: &Value) -> Option<Vec<Finding>> {
    if kind != "client_case" && kind != "typedef_case" {
        return None;
    }
    if kind == "typedef_case" {
        let src = case["source"].as_str()?;
        let Gen::Ok(emitted) = generate(src) else { return Some(vec![]) };
        return Some(match crate::typedefs::compare(src, &emitted) {
            Ok(Some(d)) => vec![Finding::new("typedef_case", case.clone(), format!("the emitted type definitions do not mirror the declarations: {d}"), json!("as declared"), json!(d))],
            _ => vec![],
        });
    }
    let c = Case::from_json(case)?;
    let Gen::Ok(text) = generate(&c.rendered.source) else { return Some(vec![]) };
    let cases = vec![ClientCase { case: c, text }];
    let (findings, _, _, _) = evaluate(&cases, "c06replay");
    Some(findings.into_iter().flatten().collect())
}
