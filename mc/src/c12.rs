//! C12 — outer attributes are reproduced verbatim on the matching emitted type.
//! Differential oracle without hand-written expected text: removing the attribute tokens from the
//! source, generating, and inserting each declaration's attributes as lines immediately before its
//! `pub struct|enum` must give exactly what generate returns for the full source (modulo the hash line).

use crate::common::*;
use crate::gramsweep::Acc;
use crate::reffront::*;
use crate::reflex::{rlex, Kind};
use rayon::prelude::*;
use serde_json::{json, Value};

fn without_hash_line(s: &str) -> String {
    s.lines().map(|l| if l.starts_with("// @sha256 ") { "// @sha256 <digest>" } else { l }).collect::<Vec<_>>().join("\n")
}

fn is_ident_char(c: char) -> bool {
    c.is_ascii_alphanumeric() || c == '_'
}

/// Inserts `attrs` as lines immediately before the definition line of `name` (`pub struct name` / `pub enum name`).
fn insert_before_definition(text: &str, keyword: &str, name: &str, attrs: &[String]) -> Result<String, String> {
    let needle = format!("pub {keyword} {name}");
    let mut at = None;
    let mut from = 0;
    while let Some(i) = text[from..].find(&needle) {
        let i = from + i;
        let line_start = i == 0 || text.as_bytes()[i - 1] == b'\n';
        let after = text[i + needle.len()..].chars().next();
        if line_start && !after.map(is_ident_char).unwrap_or(false) {
            if at.is_some() {
                return Err(format!("two definition lines for {name}"));
            }
            at = Some(i);
        }
        from = i + needle.len();
    }
    let i = at.ok_or(format!("no definition line `{needle}` in the emitted text"))?;
    let block: String = attrs.iter().map(|a| format!("{a}\n")).collect();
    Ok(format!("{}{}{}", &text[..i], block, &text[i..]))
}

#[derive(Debug)]
pub enum Verdict {
    Fine,
    Violation(String, Value, Value),
    /// nothing to check (no attributes, or the source is not accepted for other reasons)
    NotApplicable,
}

pub fn check_source(src: &str, acc: &mut Acc) -> Verdict {
    let got = catch(|| kiki::generate(src));
    let toks = match rlex(src) {
        Ok(t) => t,
        Err((i, c)) => {
            // unbalanced / multi-line attribute (or another lexical error): exactly the Lex error of C08
            acc.inc("sources with a lexical error");
            return match got {
                Ok(Err(kiki::KikiErr::Lex(ki, kc))) if ki.0 == i && kc == c => Verdict::Fine,
                Ok(Ok(_)) => Verdict::Violation("an attribute that is not a balanced single-line attribute was accepted".into(), json!(format!("Lex({i}, {c:?})")), json!("Ok")),
                Ok(Err(e)) => Verdict::Violation("wrong error for an unbalanced or multi-line attribute".into(), json!(format!("Lex({i}, {c:?})")), json!(format!("{e:?}").chars().take(200).collect::<String>())),
                Err(p) => Verdict::Violation(format!("generate panicked: {}", normalize_panic(&p)), json!(format!("Lex({i}, {c:?})")), json!(format!("panic: {}", normalize_panic(&p)))),
            };
        }
    };
    let Ok(file) = parse_tokens(src, &toks) else {
        acc.inc("sources that do not parse (C09 territory)");
        return match got {
            Ok(Ok(_)) => Verdict::Violation("a file that does not parse was accepted".into(), json!("a parse error"), json!("Ok")),
            Err(p) => Verdict::Violation(format!("generate panicked: {}", normalize_panic(&p)), json!("a parse error"), json!(format!("panic: {}", normalize_panic(&p)))),
            _ => Verdict::Fine,
        };
    };
    let mut decls: Vec<(&'static str, String, Vec<String>)> = vec![];
    for it in &file.items {
        match it {
            RItem::Struct { attrs, name, .. } => decls.push(("struct", name.name.clone(), attrs.clone())),
            RItem::Enum { attrs, name, .. } | RItem::Terminal { attrs, name, .. } => decls.push(("enum", name.name.clone(), attrs.clone())),
            RItem::Start(_) => {}
        }
    }
    if decls.iter().all(|d| d.2.is_empty()) {
        return Verdict::NotApplicable;
    }
    // the same source with the attribute tokens blanked out
    let mut stripped = String::new();
    let mut pos = 0;
    for t in toks.iter().filter(|t| t.kind == Kind::Attr) {
        stripped.push_str(&src[pos..t.start]);
        stripped.push(' ');
        pos = t.end;
    }
    stripped.push_str(&src[pos..]);
    let base = catch(|| kiki::generate(&stripped));
    let (base_text, full_text) = match (base, got) {
        (Ok(Ok(b)), Ok(Ok(f))) => (b.0, f.0),
        (Ok(Err(_)), Ok(Err(_))) => {
            acc.inc("sources rejected with and without attributes alike");
            return Verdict::NotApplicable;
        }
        (_, Err(p)) | (Err(p), _) => return Verdict::Violation(format!("generate panicked: {}", normalize_panic(&p)), json!("no panic"), json!(format!("panic: {}", normalize_panic(&p)))),
        (b, f) => {
            return Verdict::Violation(
                "attributes change whether the grammar is accepted".into(),
                json!(if b.as_ref().map(|x| x.is_ok()).unwrap_or(false) { "Ok (as without attributes)" } else { "Err (as without attributes)" }),
                json!(if f.as_ref().map(|x| x.is_ok()).unwrap_or(false) { "Ok" } else { "Err" }),
            )
        }
    };
    acc.inc("accepted sources with attributes");
    acc.add("attributes checked", decls.iter().map(|d| d.2.len() as u64).sum());
    let mut expected = base_text.clone();
    for (kw, name, attrs) in &decls {
        if attrs.is_empty() {
            continue;
        }
        match insert_before_definition(&expected, kw, name, attrs) {
            Ok(t) => expected = t,
            Err(e) => {
                acc.inc("emitted text without a recognisable definition line (oracle not applicable)");
                if acc.self_check_errors.len() < 3 {
                    acc.self_check_errors.push(format!("C12 oracle: {e}"));
                }
                return Verdict::NotApplicable;
            }
        }
    }
    if without_hash_line(&expected) == without_hash_line(&full_text) {
        Verdict::Fine
    } else {
        // locate the first differing line for the report
        let (e, f) = (without_hash_line(&expected), without_hash_line(&full_text));
        let diff = e.lines().zip(f.lines()).enumerate().find(|(_, (a, b))| a != b).map(|(i, (a, b))| format!("line {}: expected {a:?}, emitted {b:?}", i + 1)).unwrap_or_else(|| format!("{} vs {} lines", e.lines().count(), f.lines().count()));
        Verdict::Violation(format!("attributes are not reproduced verbatim, in order, immediately before their type and nowhere else ({diff})"), json!(decls.iter().filter(|d| !d.2.is_empty()).map(|d| json!({"before": format!("pub {} {}", d.0, d.1), "lines": d.2})).collect::<Vec<_>>()), json!(diff))
    }
}

const BODY_ALPHABET: [&str; 19] = ["(", ")", "[", "]", "{", "}", "a", " ", "\"", "#", "/", "$", "é", "€", "😀", "\n", "\\", "\t", "\r"];
const SECOND: [&str; 5] = ["#[derive(Debug)]", "#[a]", "#[doc = \"é\"]", "#[zz(all())]", "#[b(c[d]{e})]"];

fn finding(src: &str, what: String, e: Value, o: Value) -> Finding {
    Finding::new("attribute_case", json!({"source": src}), format!("{what} — source {src:?}"), e, o)
}

pub fn sources_for_body(body: &str, full: bool) -> Vec<String> {
    let attr = format!("#[{body}]");
    let mut out = vec![];
    let decls = ["struct A($T)", "enum B { V }", "terminal Tok { $T: () }"];
    let file = |k: usize, prefix: &str| -> String {
        let mut s = String::from("start A\n");
        for (i, d) in decls.iter().enumerate() {
            if i == k {
                s.push_str(prefix);
            }
            s.push_str(d);
            s.push('\n');
        }
        s
    };
    for k in 0..3 {
        out.push(file(k, &format!("{attr}\n")));
        if !full {
            continue;
        }
        out.push(file(k, &format!("{attr} // c\n")));
        out.push(file(k, &format!("{attr}")));
        for (j, second) in SECOND.iter().enumerate() {
            if j % 2 == 0 {
                out.push(file(k, &format!("{attr}\n{second}\n")));
                out.push(file(k, &format!("{attr} {second} // é\n")));
            } else {
                out.push(file(k, &format!("{second}\n{attr}\n")));
                out.push(file(k, &format!("{second}{attr}\n")));
            }
        }
    }
    out
}

/// Further placements for short bodies: three and four attributes on one declaration, the same attribute
/// on several declarations, declarations in other orders (terminal declaration first, attribute on the
/// last declaration), an enum without variants, a unit struct, attributes separated by comments.
pub fn template_sources(body: &str) -> Vec<String> {
    let a = format!("#[{body}]");
    vec![
        format!("{a}\n#[b]\n{a}\nterminal Tok {{ $T: () }}\nstart A\n{a}\n#[c]\n#[a]\n{a}\nstruct A\n"),
        format!("start A\nterminal Tok {{}}\nstruct A\n#[z]\n{a}\n#[y] #[x]\nenum E {{}}"),
        format!("start A\n{a}{a}{a}\nenum A {{ V W($T) }}\n{a} // c\n// d\n{a}\nterminal Tok {{ $T: () }}\n"),
        format!("#[first]\n// comment between\n{a}\n\n\n#[last]\nstruct A {{ x: $T _: $T }}\nstart A\n{a}\nterminal Tok {{\n    $T: ()\n}}\n{a}\nstruct Unreachable\n"),
        format!("start A\nstruct A(B)\n{a}\n#[derive(Clone)]\n#[derive(Debug)]\n#[derive(PartialEq)]\nstruct B\n#[derive(Debug)]\n#[derive(Clone)]\n{a}\nterminal Tok {{}}\n"),
    ]
}

pub fn run(ctx: &Ctx) -> Outcome {
    let mut out = Outcome::new("exploration");
    let (b_full, b_single) = ctx.tier.pick((3usize, 4usize), (4, 5));
    let n = BODY_ALPHABET.len();
    let units = crate::reflex::string_units(n, b_single, 2);
    let t0 = std::time::Instant::now();
    let budget = ctx.tier.pick(600.0, 3000.0);
    let accs: Vec<Acc> = units
        .par_iter()
        .map(|(prefix, subtree)| {
            let mut acc = Acc::default();
            if t0.elapsed().as_secs_f64() > budget {
                acc.inc("units skipped by the wall-clock budget");
                return acc;
            }
            let mut visit = |body: &str| {
                acc.inc("attribute bodies");
                let symbols = body.chars().count(); // every alphabet symbol is one char
                let extra = if symbols <= 3 { template_sources(body) } else { vec![] };
                for src in sources_for_body(body, symbols <= b_full).into_iter().chain(extra) {
                    acc.inc("sources");
                    if let Verdict::Violation(what, e, o) = check_source(&src, &mut acc) {
                        acc.finding(finding(&src, what, e, o));
                    }
                }
            };
            if *subtree {
                crate::reflex::for_each_string(&BODY_ALPHABET, b_single, prefix, &mut visit);
            } else {
                let s: String = prefix.iter().map(|i| BODY_ALPHABET[*i]).collect();
                visit(&s);
            }
            acc
        })
        .collect();
    let mut acc = Acc::default();
    for a in accs {
        acc.merge(a);
    }
    // the repository's own sources with attributes, and a few long / nested ones
    let mut corpus: Vec<String> = crate::corpus::repo_sources().into_iter().map(|(_, s)| s).collect();
    corpus.push("start A\n#[a(b[c{d(e)f}g]h)i]#[😀😀]\n#[x = \"]\"]\nstruct A\n#[derive(Clone)] // c\n#[derive(Debug)]\nterminal Tok {}\n".into());
    corpus.push(format!("start A\n#[{}]\nstruct A\nterminal Tok {{}}\n", "(".repeat(300) + &")".repeat(300)));
    // attributes at scale and next to related names: distinct attributes on every declaration of the name-relation
    // space and of the scaled families; 10..257 attributes on one declaration; attributes of 2^8 and 2^16 bytes
    {
        let decorate = |src: &str| -> String {
            let mut out = String::new();
            let mut k = 0;
            for line in src.lines() {
                if line.starts_with("struct ") || line.starts_with("enum ") || line.starts_with("terminal ") {
                    k += 1;
                    out += &format!("#[attr{k}]\n#[doc = \"declaration {k} (é)\"] #[k{k}(a[b]{{c}})]\n");
                }
                out += line;
                out.push('\n');
            }
            out
        };
        for nc in crate::names::relation_cases(ctx.tier.pick(1, 2)) {
            corpus.push(decorate(&nc.source));
        }
        for (i, f) in crate::scaled::families(ctx.tier == Tier::Thorough).iter().enumerate() {
            let case = crate::gramsweep::Case::new(f.g.clone(), crate::scaled::presentation(f, i));
            if case.rendered.source.len() < 40_000 && !(ctx.tier == Tier::Quick && f.name.starts_with("expr(") && f.g.n > 30) {
                corpus.push(decorate(&case.rendered.source));
            }
        }
        for k in [9usize, 10, 11, 16, 17, 32, 33, 64, 65, 100, 101, 256, 257] {
            let many: String = (0..k).map(|i| format!("#[a{i}]\n")).collect();
            corpus.push(format!("start A\n{many}struct A\n#[only]\nterminal Tok {{}}\n"));
            corpus.push(format!("start A\n#[only]\nstruct A\n{many}terminal Tok {{}}\n"));
            let one_line: String = (0..k).map(|i| format!("#[a{i}] ")).collect();
            corpus.push(format!("start A\n{one_line}\nenum A {{}}\nterminal Tok {{}}\n"));
        }
        for n in [253usize, 254, 255, 256, 4096, 65_533, 65_534, 65_535, 65_536, 70_000] {
            corpus.push(format!("start A\n#[{}]\nstruct A\n#[b]\nterminal Tok {{}}\n", "a".repeat(n)));
            corpus.push(format!("start A\n#[b]\n#[doc = \"{}\"]\n#[c]\nstruct A\nterminal Tok {{}}\n", "é".repeat(n / 2)));
        }
    }
    let corpus_accs: Vec<Acc> = corpus
        .par_iter()
        .map(|src| {
            let mut a = Acc::default();
            a.inc("sources");
            a.inc("corpus sources");
            if let Verdict::Violation(what, e, o) = check_source(src, &mut a) {
                let shown: String = if src.len() > 600 { format!("{} ... ({} bytes)", src.chars().take(300).collect::<String>(), src.len()) } else { src.clone() };
                a.finding(Finding::new("attribute_case", json!({"source": src}), format!("{what} — source {shown:?}"), e, o));
            }
            a
        })
        .collect();
    for a in corpus_accs {
        acc.merge(a);
    }
    let na = acc.get("emitted text without a recognisable definition line (oracle not applicable)");
    if na > 0 && acc.findings.is_empty() {
        machinery_error(format!("C12: the definition line of a declaration could not be found in {na} emitted texts ({:?}); the verbatim oracle cannot judge them", acc.self_check_errors.first()));
    }
    if acc.get("accepted sources with attributes") == 0 {
        machinery_error(format!("C12: the verbatim oracle applied to no source at all ({:?})", acc.self_check_errors.first()));
    }
    let capped = acc.get("units skipped by the wall-clock budget") > 0;
    let sources = acc.get("sources");
    out.cov("evaluations", json!(sources));
    out.cov("distinct_nontrivial", json!(acc.get("accepted sources with attributes")));
    out.cov("rule", json!(format!("all attribute bodies of at most {b_single} symbols over {:?} wrapped as #[body] before a struct, an enum and the terminal declaration; bodies of at most {b_full} symbols additionally with a trailing comment, without a line break before the declaration, and together with a second attribute from {:?} in both orders and on one line; bodies of at most 3 symbols additionally in five templates (three and four attributes on one declaration, the same attribute on several declarations, other declaration orders, an enum without variants, attributes separated by comments); all sources are distinct; non-trivial = the source is accepted and carries at least one attribute, so the verbatim/placement/order oracle applies (the others must be the exact Lex error of C08)", BODY_ALPHABET, SECOND)));
    out.cov("exhaustive", json!(!capped));
    out.cov("scopes", json!([{"name": "attribute bodies", "size": acc.get("attribute bodies"), "sources": sources, "completed": !capped, "exhaustive": !capped}]));
    out.cov("histogram", json!(acc.counters));
    out.cov("notes", json!(acc.self_check_errors));
    out.cov("samples", json!(sources_for_body("(é)\"", true).into_iter().take(3).collect::<Vec<_>>()));
    out.violating_cases = acc.violating;
    out.findings = acc.findings;
    out.assumptions = vec!["the emitted definition line of a declaration starts with `pub struct NAME` / `pub enum NAME` (if it cannot be found the oracle reports 'not applicable', never a violation)".into()];
    out
}

pub fn replay(kind: &str, case: &Value) -> Option<Vec<Finding>> {
    if kind != "attribute_case" {
        return None;
    }
    let src = case["source"].as_str()?;
    let mut acc = Acc::default();
    Some(match check_source(src, &mut acc) {
        Verdict::Violation(what, e, o) => vec![finding(src, what, e, o)],
        _ => vec![],
    })
}
