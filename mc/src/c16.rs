//! C16 — whitespace, line endings and comments never influence the result.
//! For each base source the re-layout space is explored by deviation from the canonical single-space
//! layout (1 gap changed: quick; 2 gaps: thorough; plus all uniform layouts). A candidate is a
//! re-layout iff R-lex yields the same token (kind, text) sequence.

use crate::common::*;
use crate::gramsweep::Acc;
use crate::reflex::{rlex, Kind, RToken};
use rayon::prelude::*;
use serde_json::{json, Value};
use std::collections::BTreeSet;

pub const GAPS: [&str; 14] = [" ", "\n", "\r\n", "\t", "\u{2003}", "  ", "// c\n", "//é€\r\n", "// a\rb $ {\n", "", "//\n", "// #[a] $x // \"q\\\n", "// a\n//b\n", "//\r\n"];

/// Every character with the Unicode White_Space property (the statement says "any Unicode whitespace"):
/// used as single-gap deviations.
pub fn all_whitespace() -> Vec<String> {
    (0u32..0x11_0000).filter_map(char::from_u32).filter(|c| c.is_whitespace()).map(|c| c.to_string()).collect()
}

/// `//` + c + text, for every printable ASCII character c (and two doubled forms).
pub fn comment_initial_gaps() -> &'static [&'static str] {
    static G: std::sync::OnceLock<Vec<&'static str>> = std::sync::OnceLock::new();
    G.get_or_init(|| {
        let mut v: Vec<String> = vec![];
        for c in 0x20u8..0x7f {
            v.push(format!("//{} x\n", c as char));
            v.push(format!("//{}\n", c as char));
        }
        for s in ["//// x\n", "///// x\n", "//!! x\n", "/// #[a] $T start\n", "//#[derive(Debug)]\n", "// /// x\n"] {
            v.push(s.to_string());
        }
        v.into_iter().map(|s| &*Box::leak(s.into_boxed_str())).collect()
    })
}

/// Gaps that are large in one dimension.
pub fn big_gaps() -> &'static [&'static str] {
    static G: std::sync::OnceLock<Vec<&'static str>> = std::sync::OnceLock::new();
    G.get_or_init(|| {
        let mut v: Vec<String> = vec![];
        for n in [254usize, 255, 256, 257, 65_534, 65_535, 65_536, 65_537] {
            v.push(" ".repeat(n));
        }
        for n in [255usize, 256, 300, 65_536] {
            v.push("\n".repeat(n));
            v.push("\r\n".repeat(n / 2));
        }
        // one long comment; many short comments; many empty comments
        for n in [252usize, 253, 254, 300, 65_533, 70_000] {
            v.push(format!("//{}\n", "c".repeat(n)));
        }
        v.push(format!("//{}\n", "é€".repeat(200)));
        v.push("// c\n".repeat(300));
        v.push("//\n".repeat(300));
        v.push("// c\r\n".repeat(14_000));
        v.push("\t\u{2003} ".repeat(100));
        v.into_iter().map(|s| &*Box::leak(s.into_boxed_str())).collect()
    })
}

#[derive(Clone, Debug, PartialEq, Eq, PartialOrd, Ord)]
enum Desc {
    Start(usize),
    StartPlus1(usize),
    End(usize),
    Len,
}

fn descriptors(src: &str, toks: &[RToken], p: usize) -> BTreeSet<Desc> {
    let mut d = BTreeSet::new();
    for (k, t) in toks.iter().enumerate() {
        if t.start == p {
            d.insert(Desc::Start(k));
        }
        if t.kind == Kind::TerminalIdent && t.start + 1 == p {
            d.insert(Desc::StartPlus1(k));
        }
        if t.end == p {
            d.insert(Desc::End(k));
        }
    }
    if p == src.len() {
        d.insert(Desc::Len);
    }
    d
}

/// Splits a Debug rendering into its skeleton (positions replaced by `@`) and the positions, in order.
fn split_positions(debug: &str) -> (String, Vec<usize>) {
    let mut skeleton = String::new();
    let mut positions = vec![];
    let mut rest = debug;
    while let Some(i) = rest.find("ByteIndex(") {
        skeleton.push_str(&rest[..i]);
        let after = &rest[i + "ByteIndex(".len()..];
        let digits: String = after.chars().take_while(|c| c.is_ascii_digit()).collect();
        if digits.is_empty() || !after[digits.len()..].starts_with(')') {
            skeleton.push_str("ByteIndex(");
            rest = after;
            continue;
        }
        positions.push(digits.parse().unwrap_or(usize::MAX));
        skeleton.push_str("ByteIndex(@)");
        rest = &after[digits.len() + 1..];
    }
    skeleton.push_str(rest);
    (skeleton, positions)
}

fn without_hash_line(s: &str) -> String {
    s.lines().map(|l| if l.starts_with("// @sha256 ") { "// @sha256 <digest>" } else { l }).collect::<Vec<_>>().join("\n")
}

pub enum Outcome1 {
    Ok(String),
    Err(String),
    Panic(String),
}

pub fn observe(src: &str) -> Outcome1 {
    match catch(|| kiki::generate(src)) {
        Ok(Ok(s)) => Outcome1::Ok(without_hash_line(&s.0)),
        Ok(Err(e)) => Outcome1::Err(format!("{e:?}")),
        Err(p) => Outcome1::Panic(normalize_panic(&p)),
    }
}

/// Compares the results of two layouts of the same token sequence.
pub fn compare(base_src: &str, base_toks: &[RToken], base: &Outcome1, src: &str, toks: &[RToken], got: &Outcome1) -> Option<(String, Value, Value)> {
    match (base, got) {
        (Outcome1::Ok(a), Outcome1::Ok(b)) => {
            if a == b {
                None
            } else {
                let diff = a.lines().zip(b.lines()).enumerate().find(|(_, (x, y))| x != y).map(|(i, (x, y))| format!("line {}: {x:?} vs {y:?}", i + 1)).unwrap_or_else(|| "different number of lines".into());
                Some((format!("the emitted text changes with the layout ({diff})"), json!("identical emitted text modulo the hash line"), json!(diff)))
            }
        }
        (Outcome1::Err(a), Outcome1::Err(b)) => {
            let (sa, pa) = split_positions(a);
            let (sb, pb) = split_positions(b);
            if sa != sb || pa.len() != pb.len() {
                return Some(("the error changes with the layout".to_string(), json!(a.chars().take(300).collect::<String>()), json!(b.chars().take(300).collect::<String>())));
            }
            for (x, y) in pa.iter().zip(&pb) {
                let dx = descriptors(base_src, base_toks, *x);
                let dy = descriptors(src, toks, *y);
                if dy.is_empty() {
                    return Some((format!("the error carries byte index {y}, which is neither a token boundary nor the end of the source"), json!(format!("an index corresponding to {dx:?}")), json!(y)));
                }
                if dx.is_empty() {
                    return Some((format!("the error for the canonical layout carries byte index {x}, which is neither a token boundary nor the end of the source"), json!("a token boundary"), json!(x)));
                }
                if dx.is_disjoint(&dy) {
                    return Some((format!("an error position does not shift with the layout: {x} is {dx:?} in the canonical layout, {y} is {dy:?} in the re-layout"), json!(format!("{dx:?}")), json!(format!("{dy:?}"))));
                }
            }
            None
        }
        (_, Outcome1::Panic(p)) => Some((format!("generate panicked on a re-layout: {p}"), json!("same result as the canonical layout"), json!(format!("panic: {p}")))),
        (Outcome1::Panic(_), _) => None, // the canonical layout itself panics: C07's finding, no baseline here
        (Outcome1::Ok(_), Outcome1::Err(e)) => Some(("a re-layout is rejected although the canonical layout is accepted".to_string(), json!("Ok"), json!(e.chars().take(300).collect::<String>()))),
        (Outcome1::Err(e), Outcome1::Ok(_)) => Some(("a re-layout is accepted although the canonical layout is rejected".to_string(), json!(e.chars().take(300).collect::<String>()), json!("Ok"))),
    }
}

fn layout(texts: &[&str], gap_of: &dyn Fn(usize) -> &'static str, tail: &str) -> String {
    // gap i stands before token i; gap n stands after the last token
    let mut s = String::new();
    for (i, t) in texts.iter().enumerate() {
        s.push_str(gap_of(i));
        s.push_str(t);
    }
    s.push_str(gap_of(texts.len()));
    s.push_str(tail);
    s
}

fn same_tokens(src: &str, want: &[(Kind, &str)]) -> Option<Vec<RToken>> {
    let toks = rlex(src).ok()?;
    if toks.len() == want.len() && toks.iter().zip(want).all(|(t, w)| t.kind == w.0 && t.text(src) == w.1) {
        Some(toks)
    } else {
        None
    }
}

/// Explores the re-layouts of one base source. `pairs`: also change two gaps at once.
pub fn explore_source(name: &str, original: &str, pairs: bool, acc: &mut Acc) {
    let Ok(otoks) = rlex(original) else {
        acc.inc("base sources that do not lex (no re-layouts; C08 territory)");
        return;
    };
    let texts: Vec<&str> = otoks.iter().map(|t| t.text(original)).collect();
    let want: Vec<(Kind, &str)> = otoks.iter().map(|t| (t.kind.clone(), t.text(original))).collect();
    let n = texts.len();
    let canonical = layout(&texts, &|i| if i == 0 || i == n { "" } else { " " }, "");
    let Some(ctoks) = same_tokens(&canonical, &want) else {
        acc.self_check_errors.push(format!("reference self-check: the canonical layout of {name} does not lex back to the same tokens"));
        return;
    };
    let base = observe(&canonical);
    acc.inc("base sources");
    acc.inc(match &base {
        Outcome1::Ok(_) => "base sources accepted",
        Outcome1::Err(_) => "base sources rejected with an error",
        Outcome1::Panic(_) => "base sources that panic (C07 territory)",
    });
    let jobs: std::sync::Mutex<Vec<(String, &'static str)>> = std::sync::Mutex::new(vec![]);
    let flush = |acc: &mut Acc| {
        let batch: Vec<(String, &'static str)> = std::mem::take(&mut *jobs.lock().unwrap());
        let accs: Vec<Acc> = batch
            .par_iter()
            .map(|(src, what)| {
                let mut a = Acc::default();
                let Some(toks) = same_tokens(src, &want) else {
                    a.inc("candidates that are not re-layouts (token sequence changes)");
                    return a;
                };
                a.inc("re-layouts compared");
                a.inc(what);
                let got = observe(src);
                if let Some((msg, e, o)) = compare(&canonical, &ctoks, &base, src, &toks, &got) {
                    a.finding(Finding::new("layout_case", json!({"canonical": canonical, "relayout": src}), format!("{name}: {msg}"), e, o));
                }
                a
            })
            .collect();
        for a in accs {
            acc.merge(a);
        }
    };
    let try_layout = |src: String, what: &'static str, acc: &mut Acc| {
        let full = {
            let mut j = jobs.lock().unwrap();
            j.push((src, what));
            j.len() >= 4096
        };
        if full {
            flush(acc);
        }
    };
    // the original layout itself
    try_layout(original.to_string(), "original layouts", acc);
    // uniform layouts, with and without a final comment that lacks a newline
    for g in GAPS.iter() {
        try_layout(layout(&texts, &|_| *g, ""), "uniform layouts", acc);
        try_layout(layout(&texts, &|i| if i == 0 { "" } else { *g }, "// end é"), "uniform layouts", acc);
    }
    // one gap changed
    for i in 0..=n {
        for g in GAPS.iter() {
            let default = if i == 0 || i == n { "" } else { " " };
            if *g == default {
                continue;
            }
            try_layout(layout(&texts, &|k| if k == i { *g } else if k == 0 || k == n { "" } else { " " }, ""), "1-gap deviations", acc);
        }
    }
    // every Unicode whitespace character, one gap at a time (all gaps for small sources, a rotating subset of gaps for large ones)
    let ws: Vec<&'static str> = all_whitespace().into_iter().map(|s| &*Box::leak(s.into_boxed_str())).collect();
    for i in 0..=n {
        for (k, g) in ws.iter().enumerate() {
            if n > 80 && (i + k) % 7 != 0 {
                continue;
            }
            try_layout(layout(&texts, &|j| if j == i { *g } else if j == 0 || j == n { "" } else { " " }, ""), "1-gap deviations with each Unicode whitespace character", acc);
        }
    }
    // large gaps, one at a time: sizes around 2^8 and 2^16, many lines, long comments (positions, counters and
    // buffers that only matter at scale); small sources get every gap, large ones a rotating subset
    for i in 0..=n {
        for (k, g) in big_gaps().iter().enumerate() {
            if n > 40 && (i + k) % 5 != 0 {
                continue;
            }
            try_layout(layout(&texts, &|j| if j == i { *g } else if j == 0 || j == n { "" } else { " " }, ""), "1-gap deviations with a large gap (255..257 / 65535..65537 bytes, hundreds of lines or comments)", acc);
        }
    }
    // comments whose text begins with each printable ASCII character (`///`, `//!`, `//#[a]`, `//*`, ...): what a
    // comment says must not matter, whatever it looks like to other tools
    for i in 0..=n {
        for (k, g) in comment_initial_gaps().iter().enumerate() {
            if n > 80 && (i + k) % 7 != 0 {
                continue; // large sources: a rotating seventh of the gaps at each position
            }
            try_layout(layout(&texts, &|j| if j == i { *g } else if j == 0 || j == n { "" } else { " " }, ""), "1-gap deviations with a comment beginning with each printable ASCII character", acc);
        }
    }
    if (pairs && n <= 60) || n <= 36 {
        for i in 0..=n {
            for j in i + 1..=n {
                for gi in GAPS.iter() {
                    for gj in GAPS.iter() {
                        let di = if i == 0 || i == n { "" } else { " " };
                        let dj = if j == 0 || j == n { "" } else { " " };
                        if *gi == di || *gj == dj {
                            continue;
                        }
                        try_layout(layout(&texts, &|k| if k == i { *gi } else if k == j { *gj } else if k == 0 || k == n { "" } else { " " }, ""), "2-gap deviations", acc);
                    }
                }
            }
        }
    }
    flush(acc);
}

pub fn base_sources(tier: Tier) -> Vec<(String, String)> {
    let mut v = crate::corpus::repo_sources();
    v.push(("dangling-else".into(), "start S1\nenum S1 { If($I S1) IfElse($I S1 $E S1) X($X) }\nterminal Tok { $I: () $E: () $X: () }\n".into()));
    v.push(("ambiguous-expr".into(), "start E\nenum E { Add(E $Plus E) Mul(E $Star E) Id($Id) }\n#[derive(Debug)]\nterminal Tok { $Plus: () $Star: () $Id: std::string::String }\n".into()));
    v.push(("lr1-not-lalr".into(), "start S1\nenum S1 { X1($A Aa $D) X2($B Bb $D) X3($A Bb $E) X4($B Aa $E) }\nstruct Aa($C)\nstruct Bb($C)\nterminal Tok { $A: () $B: () $C: () $D: () $E: () }\n".into()));
    // texts with parse errors at various tokens, and validation errors of every kind
    for (i, s) in [
        "start A struct A { x : $T } terminal Tok { $T : a :: B < c , ( ) > } )",
        "start A #[a] start B",
        "start Foo struct #[doc = \"café 日本語 🦀\"] Foo { a : $T }",
        "start A #[é] #[€(😀)] struct A enum #[ü] B { } terminal Tok { }",
        "struct A ( _ : $T $T ) enum",
        "terminal Tok { $T : a < > }",
        "start a struct a terminal Tok { }",
        "start A struct A { X : $T } terminal Tok { $T : ( ) }",
        "start A struct A ( $U ) terminal Tok { $T : ( ) }",
        "start A struct A ( B ) terminal Tok { $T : ( ) }",
        "start A enum A { V V } terminal Tok { }",
        "start A enum A { V ( $T ) W { _ : $T } } terminal Tok { $T : ( ) }",
        "start A struct A struct A terminal Tok { }",
        "start A start A struct A terminal Tok { }",
        "start A struct A terminal Tok { } terminal Tok2 { }",
        "struct A terminal Tok { }",
        "start A struct A",
        "start A struct A terminal Tok { $t : ( ) }",
        "start A struct A terminal Tok { $A : ( ) }",
        "",
    ]
    .iter()
    .enumerate()
    {
        v.push((format!("text-{i}"), s.to_string()));
    }
    // a parse error AT a token of every kind (the reported span and text are that token's: its position must follow
    // the layout whatever stands directly before and after it), each followed by further tokens
    for (i, bad) in [":", "::", ",", "(", ")", "{", "}", "<", ">", "_", "x", "$T", "Bb"].iter().enumerate() {
        v.push((format!("bad-token-{i}"), format!("start A {bad} struct B ( $T )")));
    }
    // ... and directly followed by a token of every kind (where the two may touch, the empty gap is a re-layout)
    {
        let kinds = [":", "::", ",", "(", ")", "{", "}", "<", ">", "_", "x", "$T", "#[a]"];
        for (i, bad) in kinds.iter().enumerate() {
            for (j, next) in kinds.iter().enumerate() {
                v.push((format!("bad-token-{i}-then-{j}"), format!("start A {bad} {next} B")));
            }
        }
    }
    for (i, (pre, bad)) in [("struct A {", ":"), ("struct A { x", "::"), ("struct A ( $T", ":"), ("terminal Tok { $T :", ":"), ("terminal Tok { $T : a <", ","), ("terminal Tok { $T : a ::", "::"), ("enum A { V (", "start"), ("#[a]", "start"), ("struct A { _", "$T")].iter().enumerate() {
        v.push((format!("bad-token-in-context-{i}"), format!("{pre} {bad} B }} terminal Tok {{ }}")));
    }
    // accepted grammars whose result depends on more than the tokens' kinds: generic payload types at every use site,
    // attributes on every declaration, names that clash with the generator's helpers (renaming), related names
    v.push(("generic-payloads".into(), crate::c13::grammar_for("a::B<(), c9<u8, B>, x::Y>", "std::vec::Vec<(a, B)>".replace("(a, B)", "a::B").as_str())));
    v.push(("shaped-payloads".into(), crate::c13::shaped_grammar(1, "a<b::C<()>>", "D")));
    v.push(("all-helper-names".into(), crate::c14::all_helpers_source()));
    v.push(("attributes-everywhere".into(), "#[a] #[b(c)]\nstart A\n#[derive(Debug)]\n#[doc = \"é\"]\nenum A { V(B $T) W { x: $U _: A } }\n#[c]\nstruct B\n#[d] #[e]\nterminal Tok { $T: () $U: a::B<c> }\n".replace("#[a] #[b(c)]\nstart A", "start A")));
    v.push(("related-names".into(), crate::names::render(&[(crate::names::Role::T1, "Ab"), (crate::names::Role::T2, "AbB"), (crate::names::Role::N2, "A")])));
    v.push(("terminal-enum-first".into(), "terminal Tok { $T: u8 }\n#[x]\nstruct B($T)\nstart A\n#[y]\nenum A { V(B) W }\n".into()));
    // samples of G(2,2,3,2) under rotating presentations
    {
        use crate::scopes::*;
        let sc = Scope { n: 2, t: 2, p: 3, k: 2, symmetry: false, only_cyclic: false };
        let rhss = all_rhs(sc.n, sc.t, sc.k);
        let mut idx = 0u64;
        let step = tier.pick(397, 61);
        for unit in work_units(&sc, u128::MAX) {
            for_each_completion(&sc, &rhss, &unit, &mut |gr| {
                idx += 1;
                if idx % step == 0 {
                    let pres = Presentation::rotating(&gr, idx);
                    v.push((format!("G(2,2,3,2)#{idx}"), crate::gramsweep::Case::new(gr, pres).rendered.source));
                }
            });
        }
    }
    v
}

pub fn run(ctx: &Ctx) -> Outcome {
    let mut out = Outcome::new("exploration");
    let bases = base_sources(ctx.tier);
    let pairs = ctx.tier == Tier::Thorough;
    let accs: Vec<Acc> = bases
        .par_iter()
        .map(|(name, src)| {
            let mut acc = Acc::default();
            explore_source(name, src, pairs, &mut acc);
            acc
        })
        .collect();
    let mut acc = Acc::default();
    for a in accs {
        acc.merge(a);
    }
    if let Some(e) = acc.self_check_errors.iter().find(|e| e.starts_with("reference self-check")) {
        machinery_error(format!("C16: {e}"));
    }
    let n = acc.get("re-layouts compared");
    out.cov("evaluations", json!(n));
    out.cov("distinct_nontrivial", json!(n.saturating_sub(acc.get("original layouts"))));
    out.cov("rule", json!(format!("for each of {} base sources (the repository's grammar files incl. the should-fail corpus and parser.kiki, conflict grammars, texts with parse errors and with every kind of validation error, samples of G(2,2,3,2)): the original layout, all uniform layouts over the gap alphabet {:?} (with and without a final comment lacking a newline) and every layout that differs from the canonical single-space layout in one gap{}; a candidate counts only if R-lex yields the same token sequence; non-trivial = differs from the canonical layout", bases.len(), GAPS, if pairs { " or in two gaps (sources of at most 60 tokens)" } else { " or in two gaps (sources of at most 36 tokens)" })));
    out.cov("exhaustive", json!(true));
    out.cov("histogram", json!(acc.counters));
    out.cov("samples", json!([{"canonical": "start A struct A terminal Tok { }", "relayout": "start// a\rb $ {\nA struct A terminal Tok { }"}]));
    out.violating_cases = acc.violating;
    out.findings = acc.findings;
    out.assumptions = vec!["a re-layout is defined by R-lex token equality; sources that do not lex have no re-layouts (C08's business)".into()];
    out
}

pub fn replay(kind: &str, case: &Value) -> Option<Vec<Finding>> {
    if kind != "layout_case" {
        return None;
    }
    let a = case["canonical"].as_str()?;
    let b = case["relayout"].as_str()?;
    let ta = rlex(a).ok()?;
    let tb = rlex(b).ok()?;
    let (oa, ob) = (observe(a), observe(b));
    Some(match compare(a, &ta, &oa, b, &tb, &ob) {
        Some((msg, e, o)) => vec![Finding::new("layout_case", case.clone(), msg, e, o)],
        None => vec![],
    })
}
