//! Reference front end: a recursive-descent parser for the Kiki grammar (appendix A of DESIGN.md) on
//! top of R-lex, producing a reference AST with byte positions, and R-validate, which computes the
//! *set of all* static violations present in a file (appendix C).

use crate::reflex::{rlex, Kind, RToken};
use std::collections::BTreeSet;

#[derive(Clone, Debug, PartialEq, Eq)]
pub struct RIdent {
    pub name: String,
    /// byte offset of the name (for terminals: of the name without the `$`)
    pub pos: usize,
}

#[derive(Clone, Debug, PartialEq, Eq)]
pub struct RSym {
    pub terminal: bool,
    pub name: String,
    pub pos: usize,
}

#[derive(Clone, Debug, PartialEq, Eq)]
pub struct RField {
    /// None: tuple field without a name, or `_`
    pub name: Option<RIdent>,
    pub skipped: bool,
    pub sym: RSym,
}

#[derive(Clone, Debug, PartialEq, Eq)]
pub enum RFieldset {
    Empty,
    Named(Vec<RField>),
    Tuple(Vec<RField>),
}

impl RFieldset {
    pub fn fields(&self) -> &[RField] {
        match self {
            RFieldset::Empty => &[],
            RFieldset::Named(f) | RFieldset::Tuple(f) => f,
        }
    }
}

#[derive(Clone, Debug, PartialEq, Eq)]
pub enum RType {
    Unit,
    Path(Vec<String>),
    Complex(Vec<String>, Vec<RType>),
}

impl RType {
    /// The type's token sequence (what "token-for-token" means in C13).
    pub fn tokens(&self) -> Vec<String> {
        match self {
            RType::Unit => vec!["(".into(), ")".into()],
            RType::Path(p) => {
                let mut v = vec![];
                for (i, s) in p.iter().enumerate() {
                    if i > 0 {
                        v.push("::".into());
                    }
                    v.push(s.clone());
                }
                v
            }
            RType::Complex(p, args) => {
                let mut v = RType::Path(p.clone()).tokens();
                v.push("<".into());
                for (i, a) in args.iter().enumerate() {
                    if i > 0 {
                        v.push(",".into());
                    }
                    v.extend(a.tokens());
                }
                v.push(">".into());
                v
            }
        }
    }
}

#[derive(Clone, Debug, PartialEq, Eq)]
pub struct RVariant {
    pub name: RIdent,
    pub fieldset: RFieldset,
}

#[derive(Clone, Debug, PartialEq, Eq)]
pub struct RTerminal {
    pub name: RIdent,
    pub ty: RType,
}

#[derive(Clone, Debug, PartialEq, Eq)]
pub enum RItem {
    Start(RIdent),
    Struct { attrs: Vec<String>, name: RIdent, fieldset: RFieldset },
    Enum { attrs: Vec<String>, name: RIdent, variants: Vec<RVariant> },
    Terminal { attrs: Vec<String>, name: RIdent, variants: Vec<RTerminal> },
}

#[derive(Clone, Debug, PartialEq, Eq)]
pub struct RFile {
    pub items: Vec<RItem>,
}

/// Parse failure: index of the first token that cannot continue any valid file (None = end of input).
pub type RParseErr = Option<usize>;

struct Parser<'a> {
    src: &'a str,
    toks: &'a [RToken],
    i: usize,
}

impl<'a> Parser<'a> {
    fn peek(&self) -> Option<&Kind> {
        self.toks.get(self.i).map(|t| &t.kind)
    }
    fn fail<T>(&self) -> Result<T, RParseErr> {
        Err(if self.i < self.toks.len() { Some(self.i) } else { None })
    }
    fn expect(&mut self, k: Kind) -> Result<&'a RToken, RParseErr> {
        if self.peek() == Some(&k) {
            self.i += 1;
            Ok(&self.toks[self.i - 1])
        } else {
            self.fail()
        }
    }
    fn ident(&mut self) -> Result<RIdent, RParseErr> {
        let t = self.expect(Kind::Ident)?;
        Ok(RIdent { name: t.text(self.src).to_string(), pos: t.start })
    }
    fn sym(&mut self) -> Result<RSym, RParseErr> {
        match self.peek() {
            Some(Kind::Ident) => {
                let t = &self.toks[self.i];
                self.i += 1;
                Ok(RSym { terminal: false, name: t.text(self.src).to_string(), pos: t.start })
            }
            Some(Kind::TerminalIdent) => {
                let t = &self.toks[self.i];
                self.i += 1;
                Ok(RSym { terminal: true, name: t.text(self.src)[1..].to_string(), pos: t.start + 1 })
            }
            _ => self.fail(),
        }
    }
    fn fieldset(&mut self) -> Result<RFieldset, RParseErr> {
        match self.peek() {
            Some(Kind::LCurly) => {
                self.i += 1;
                let mut fields = vec![];
                loop {
                    let name = match self.peek() {
                        Some(Kind::Ident) => Some(self.ident()?),
                        Some(Kind::Underscore) => {
                            self.i += 1;
                            None
                        }
                        Some(Kind::RCurly) if !fields.is_empty() => {
                            self.i += 1;
                            return Ok(RFieldset::Named(fields));
                        }
                        _ => return self.fail(),
                    };
                    self.expect(Kind::Colon)?;
                    let sym = self.sym()?;
                    fields.push(RField { skipped: name.is_none(), name, sym });
                }
            }
            Some(Kind::LParen) => {
                self.i += 1;
                let mut fields = vec![];
                loop {
                    match self.peek() {
                        Some(Kind::Ident) | Some(Kind::TerminalIdent) => {
                            let sym = self.sym()?;
                            fields.push(RField { name: None, skipped: false, sym });
                        }
                        Some(Kind::Underscore) => {
                            self.i += 1;
                            self.expect(Kind::Colon)?;
                            let sym = self.sym()?;
                            fields.push(RField { name: None, skipped: true, sym });
                        }
                        Some(Kind::RParen) if !fields.is_empty() => {
                            self.i += 1;
                            return Ok(RFieldset::Tuple(fields));
                        }
                        _ => return self.fail(),
                    }
                }
            }
            _ => Ok(RFieldset::Empty),
        }
    }
    fn path(&mut self) -> Result<Vec<String>, RParseErr> {
        let mut p = vec![self.ident()?.name];
        while self.peek() == Some(&Kind::DoubleColon) {
            self.i += 1;
            p.push(self.ident()?.name);
        }
        Ok(p)
    }
    fn ty(&mut self) -> Result<RType, RParseErr> {
        if self.peek() == Some(&Kind::LParen) {
            self.i += 1;
            self.expect(Kind::RParen)?;
            return Ok(RType::Unit);
        }
        let p = self.path()?;
        if self.peek() == Some(&Kind::LAngle) {
            self.i += 1;
            let mut args = vec![self.ty()?];
            while self.peek() == Some(&Kind::Comma) {
                self.i += 1;
                args.push(self.ty()?);
            }
            self.expect(Kind::RAngle)?;
            return Ok(RType::Complex(p, args));
        }
        Ok(RType::Path(p))
    }
    fn file(&mut self) -> Result<RFile, RParseErr> {
        let mut items = vec![];
        while self.i < self.toks.len() {
            if self.peek() == Some(&Kind::StartKw) {
                self.i += 1;
                items.push(RItem::Start(self.ident()?));
                continue;
            }
            let mut attrs = vec![];
            while self.peek() == Some(&Kind::Attr) {
                attrs.push(self.toks[self.i].text(self.src).to_string());
                self.i += 1;
            }
            match self.peek() {
                Some(Kind::StructKw) => {
                    self.i += 1;
                    let name = self.ident()?;
                    let fieldset = self.fieldset()?;
                    items.push(RItem::Struct { attrs, name, fieldset });
                }
                Some(Kind::EnumKw) => {
                    self.i += 1;
                    let name = self.ident()?;
                    self.expect(Kind::LCurly)?;
                    let mut variants = vec![];
                    while self.peek() == Some(&Kind::Ident) {
                        let vname = self.ident()?;
                        let fieldset = self.fieldset()?;
                        variants.push(RVariant { name: vname, fieldset });
                    }
                    self.expect(Kind::RCurly)?;
                    items.push(RItem::Enum { attrs, name, variants });
                }
                Some(Kind::TerminalKw) => {
                    self.i += 1;
                    let name = self.ident()?;
                    self.expect(Kind::LCurly)?;
                    let mut variants = vec![];
                    while self.peek() == Some(&Kind::TerminalIdent) {
                        let t = &self.toks[self.i];
                        self.i += 1;
                        let tname = RIdent { name: t.text(self.src)[1..].to_string(), pos: t.start + 1 };
                        self.expect(Kind::Colon)?;
                        let ty = self.ty()?;
                        variants.push(RTerminal { name: tname, ty });
                    }
                    self.expect(Kind::RCurly)?;
                    items.push(RItem::Terminal { attrs, name, variants });
                }
                _ => return self.fail(),
            }
        }
        Ok(RFile { items })
    }
}

pub fn parse_tokens(src: &str, toks: &[RToken]) -> Result<RFile, RParseErr> {
    Parser { src, toks, i: 0 }.file()
}

#[derive(Debug)]
pub enum FrontErr {
    Lex(crate::reflex::LexErr),
    Parse(RParseErr),
}

pub fn parse_source(src: &str) -> Result<(RFile, Vec<RToken>), FrontErr> {
    let toks = rlex(src).map_err(FrontErr::Lex)?;
    let f = parse_tokens(src, &toks).map_err(FrontErr::Parse)?;
    Ok((f, toks))
}

// ---------------------------------------------------------------------------------------------
// R-validate

#[derive(Clone, Debug, PartialEq, Eq, PartialOrd, Ord)]
pub enum Violation {
    NoStartSymbol,
    NoTerminalEnum,
    /// name offsets of all `start` declarations
    MultipleStartSymbols(BTreeSet<usize>),
    MultipleTerminalEnums(BTreeSet<usize>),
    NotUppercase(usize),
    FieldNotLowercase(usize),
    NameClash(String, usize, usize),
    VariantNameClash(String, usize, usize),
    /// (symbol sequence as (is_terminal, name), offset, offset)
    VariantSeqClash(Vec<(bool, String)>, usize, usize),
    UndefinedNonterminal(String, usize),
    UndefinedTerminal(String, usize),
}

fn first_ascii_letter(name: &str) -> Option<char> {
    name.chars().find(|c| c.is_ascii_alphabetic())
}

/// All static violations present in the file (appendix C). With several terminal declarations the
/// terminal namespace is the union of all of them.
pub fn violations(f: &RFile) -> BTreeSet<Violation> {
    let mut v = BTreeSet::new();
    let starts: Vec<&RIdent> = f.items.iter().filter_map(|i| if let RItem::Start(n) = i { Some(n) } else { None }).collect();
    let terms: Vec<(&RIdent, &Vec<RTerminal>)> = f.items.iter().filter_map(|i| if let RItem::Terminal { name, variants, .. } = i { Some((name, variants)) } else { None }).collect();
    let nts: Vec<&RIdent> = f.items.iter().filter_map(|i| match i { RItem::Struct { name, .. } | RItem::Enum { name, .. } => Some(name), _ => None }).collect();
    if starts.is_empty() {
        v.insert(Violation::NoStartSymbol);
    }
    if starts.len() > 1 {
        v.insert(Violation::MultipleStartSymbols(starts.iter().map(|s| s.pos).collect()));
    }
    if terms.is_empty() {
        v.insert(Violation::NoTerminalEnum);
    }
    if terms.len() > 1 {
        v.insert(Violation::MultipleTerminalEnums(terms.iter().map(|t| t.0.pos).collect()));
    }
    let nt_names: BTreeSet<&str> = nts.iter().map(|n| n.name.as_str()).collect();
    let t_names: BTreeSet<&str> = terms.iter().flat_map(|t| t.1.iter().map(|x| x.name.name.as_str())).collect();
    for s in &starts {
        if !nt_names.contains(s.name.as_str()) {
            v.insert(Violation::UndefinedNonterminal(s.name.clone(), s.pos));
        }
    }
    // top-level definitions
    let mut defs: Vec<(&str, usize)> = vec![];
    for n in &nts {
        defs.push((&n.name, n.pos));
    }
    for (tn, vs) in &terms {
        for x in vs.iter() {
            defs.push((&x.name.name, x.name.pos));
        }
        defs.push((&tn.name, tn.pos));
    }
    for i in 0..defs.len() {
        for j in i + 1..defs.len() {
            if defs[i].0 == defs[j].0 && defs[i].1 != defs[j].1 {
                v.insert(Violation::NameClash(defs[i].0.to_string(), defs[i].1.min(defs[j].1), defs[i].1.max(defs[j].1)));
            }
        }
    }
    let mut upper = |name: &str, pos: usize, v: &mut BTreeSet<Violation>| {
        if let Some(c) = first_ascii_letter(name) {
            if !c.is_ascii_uppercase() {
                v.insert(Violation::NotUppercase(pos));
            }
        }
    };
    for n in &nts {
        upper(&n.name, n.pos, &mut v);
    }
    for (tn, vs) in &terms {
        upper(&tn.name, tn.pos, &mut v);
        for x in vs.iter() {
            upper(&x.name.name, x.name.pos, &mut v);
        }
    }
    let check_fields = |fs: &RFieldset, v: &mut BTreeSet<Violation>| {
        for fld in fs.fields() {
            if let Some(n) = &fld.name {
                if let Some(c) = first_ascii_letter(&n.name) {
                    if !c.is_ascii_lowercase() {
                        v.insert(Violation::FieldNotLowercase(n.pos));
                    }
                }
            }
            if fld.sym.terminal {
                if !t_names.contains(fld.sym.name.as_str()) {
                    v.insert(Violation::UndefinedTerminal(fld.sym.name.clone(), fld.sym.pos));
                }
            } else if !nt_names.contains(fld.sym.name.as_str()) {
                v.insert(Violation::UndefinedNonterminal(fld.sym.name.clone(), fld.sym.pos));
            }
        }
    };
    for it in &f.items {
        match it {
            RItem::Struct { fieldset, .. } => check_fields(fieldset, &mut v),
            RItem::Enum { variants, .. } => {
                for x in variants {
                    upper(&x.name.name, x.name.pos, &mut v);
                    check_fields(&x.fieldset, &mut v);
                }
                for i in 0..variants.len() {
                    for j in i + 1..variants.len() {
                        let (a, b) = (&variants[i], &variants[j]);
                        if a.name.name == b.name.name {
                            v.insert(Violation::VariantNameClash(a.name.name.clone(), a.name.pos, b.name.pos));
                        }
                        let sa: Vec<(bool, String)> = a.fieldset.fields().iter().map(|f| (f.sym.terminal, f.sym.name.clone())).collect();
                        let sb: Vec<(bool, String)> = b.fieldset.fields().iter().map(|f| (f.sym.terminal, f.sym.name.clone())).collect();
                        if sa == sb {
                            v.insert(Violation::VariantSeqClash(sa, a.name.pos, b.name.pos));
                        }
                    }
                }
            }
            _ => {}
        }
    }
    v
}

/// Does kiki's validation error name a violation that is really present (appendix C)?
/// `None`: the error is not a validation error (Lex / Parse / TableConflict).
pub fn error_is_member(e: &kiki::KikiErr, v: &BTreeSet<Violation>) -> Option<bool> {
    use kiki::KikiErr as K;
    let pair = |p: usize, q: usize| (p.min(q), p.max(q));
    Some(match e {
        K::Lex(..) | K::Parse(..) | K::TableConflict(_) => return None,
        K::NoStartSymbol => v.contains(&Violation::NoStartSymbol),
        K::NoTerminalEnum => v.contains(&Violation::NoTerminalEnum),
        K::MultipleStartSymbols(ps) => v.iter().any(|x| matches!(x, Violation::MultipleStartSymbols(s) if ps.len() >= 2 && ps.iter().all(|p| s.contains(&p.0)) && ps.iter().map(|p| p.0).collect::<BTreeSet<_>>().len() >= 2)),
        K::MultipleTerminalEnums(ps) => v.iter().any(|x| matches!(x, Violation::MultipleTerminalEnums(s) if ps.len() >= 2 && ps.iter().all(|p| s.contains(&p.0)) && ps.iter().map(|p| p.0).collect::<BTreeSet<_>>().len() >= 2)),
        K::SymbolOrTerminalEnumNameFirstLetterNotUppercase(p) => v.contains(&Violation::NotUppercase(p.0)),
        K::FieldFirstLetterNotLowercase(p) => v.contains(&Violation::FieldNotLowercase(p.0)),
        K::NameClash(n, p, q) => {
            let (a, b) = pair(p.0, q.0);
            v.contains(&Violation::NameClash(n.clone(), a, b))
        }
        K::NonterminalEnumVariantNameClash(n, p, q) => {
            let (a, b) = pair(p.0, q.0);
            v.contains(&Violation::VariantNameClash(n.clone(), a, b))
        }
        K::NonterminalEnumVariantSymbolSequenceClash(seq, p, q) => {
            let (a, b) = pair(p.0, q.0);
            let s: Vec<(bool, String)> = seq
                .iter()
                .map(|s| match s {
                    kiki::Symbol::Terminal(t) => (true, t.raw().to_string()),
                    kiki::Symbol::Nonterminal(n) => (false, n.clone()),
                })
                .collect();
            v.contains(&Violation::VariantSeqClash(s, a, b))
        }
        K::UndefinedNonterminal(n, p) => v.contains(&Violation::UndefinedNonterminal(n.clone(), p.0)),
        K::UndefinedTerminal(n, p) => v.contains(&Violation::UndefinedTerminal(n.raw().to_string(), p.0)),
    })
}
