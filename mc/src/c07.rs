//! C07 — generate is total: no panic, abort or hang on any input text.
//! Four exhaustive families (all strings, all viable token-kind sequences and their one-token
//! extensions, all small ASTs, all grammars of the program scopes) plus a finite list of bound probes.
//! Every family runs in a child process (so that an abort is observed), under a per-input watchdog.

use crate::common::*;
use crate::gramsweep::{all_seed_nbh, g, gsym, Spec};
use rayon::prelude::*;
use serde_json::{json, Value};
use std::os::unix::fs::FileExt;
use std::sync::atomic::{AtomicBool, AtomicU64, Ordering};
use std::sync::{Arc, Mutex};

// ---------------------------------------------------------------------------------------------
// Per-thread heartbeat: the input a worker is currently on, and since when.

struct Slot {
    current: Mutex<String>,
    since_ms: AtomicU64,
    busy: AtomicBool,
}

static SLOTS: Mutex<Vec<Arc<Slot>>> = Mutex::new(Vec::new());
thread_local! {
    static SLOT: Arc<Slot> = {
        let s = Arc::new(Slot { current: Mutex::new(String::new()), since_ms: AtomicU64::new(0), busy: AtomicBool::new(false) });
        SLOTS.lock().unwrap().push(s.clone());
        s
    };
}

struct Sink {
    start: std::time::Instant,
    inputs: AtomicU64,
    panics: Mutex<Vec<(String, String)>>,
    panic_count: AtomicU64,
    trace: Option<std::fs::File>,
}

impl Sink {
    /// The C07 oracle on one input: generate returns (Ok or Err); a panic is recorded.
    fn feed(&self, src: &str) {
        self.inputs.fetch_add(1, Ordering::Relaxed);
        if let Some(f) = &self.trace {
            // trace mode (sequential): leave the current input on disk before touching it
            let _ = f.set_len(0);
            let _ = f.write_all_at(src.as_bytes(), 0);
        }
        SLOT.with(|s| {
            {
                let mut c = s.current.lock().unwrap();
                c.clear();
                c.push_str(src);
            }
            s.since_ms.store(self.start.elapsed().as_millis() as u64, Ordering::Relaxed);
            s.busy.store(true, Ordering::Relaxed);
        });
        let r = catch(|| kiki::generate(src).map(|_| ()));
        SLOT.with(|s| s.busy.store(false, Ordering::Relaxed));
        if let Err(p) = r {
            self.panic_count.fetch_add(1, Ordering::Relaxed);
            let mut v = self.panics.lock().unwrap();
            if v.len() < 60 {
                v.push((src.to_string(), normalize_panic(&p)));
            }
        }
    }
}

const PER_INPUT_LIMIT_S: u64 = 120;
const PROBE_LIMIT_S: u64 = 300;

fn spawn_monitor(start: std::time::Instant) {
    std::thread::spawn(move || loop {
        std::thread::sleep(std::time::Duration::from_secs(2));
        let now = start.elapsed().as_millis() as u64;
        let slots: Vec<Arc<Slot>> = SLOTS.lock().unwrap().clone();
        for s in slots {
            if s.busy.load(Ordering::Relaxed) && now.saturating_sub(s.since_ms.load(Ordering::Relaxed)) > PER_INPUT_LIMIT_S * 1000 {
                let src = s.current.lock().unwrap().clone();
                println!("{}", json!({"hang": src}));
                std::process::exit(3);
            }
        }
    });
}

// ---------------------------------------------------------------------------------------------
// The families

fn grammar_specs(tier: Tier) -> Vec<Spec> {
    match tier {
        Tier::Quick => {
            let mut v = vec![g(2, 2, 3, 3), g(2, 0, 3, 3), g(2, 1, 3, 3), g(1, 3, 3, 2), Spec::Files { k: 1, cap: 250 }, Spec::Names { extra: 2 }, Spec::Scaled { deep: false }];
            v.extend(all_seed_nbh(1, 1, 100_000));
            v
        }
        Tier::Thorough => {
            let mut v = vec![g(2, 2, 3, 3), g(2, 3, 4, 2), g(3, 2, 4, 2), gsym(2, 2, 4, 3), g(1, 3, 4, 3), g(2, 0, 3, 3), g(3, 1, 4, 2)];
            v.extend(all_seed_nbh(2, 1, 60_000));
            v
        }
    }
}

fn family_scope(family: &str, tier: Tier) -> String {
    match family {
        "strings" => format!("all strings of at most {} symbols over the 30-symbol alphabet, and every Unicode scalar value in 9 contexts", tier.pick(5, 7)),
        "tokens" => format!("all viable token-kind prefixes of the Kiki grammar to depth {} and all their one-token extensions, rendered to text", tier.pick(13, 16)),
        "asts" => format!("all files of at most {} items over the 204-item alphabet of C10; every name of the C05 pools in every naming role of six carrier grammars; every identifier of <= 4 characters over {{a, Z, _, 9}} in 7 roles", tier.pick(3, 4)),
        "grammars" => format!("all grammars of {}", grammar_specs(tier).iter().map(|s| s.name()).collect::<Vec<_>>().join(", ")),
        _ => String::new(),
    }
}

fn run_family(family: &str, tier: Tier, sink: &Sink) {
    match family {
        "strings" => {
            // every Unicode scalar value in the contexts where the tokenizer classifies characters
            (0u32..0x11_0000).into_par_iter().for_each(|cp| {
                if let Some(c) = char::from_u32(cp) {
                    for (pre, post) in [("", ""), ("a", "b"), ("$", ""), ("$T", "x"), (":", ":"), ("#[", "]"), ("//", "\n_"), ("/", "/"), ("start A struct A", "terminal Tok {}")] {
                        sink.feed(&format!("{pre}{c}{post}"));
                    }
                }
            });
            let l = tier.pick(5usize, 7usize);
            let units = crate::reflex::string_units(crate::reflex::ALPHABET.len(), l, 3);
            units.par_iter().for_each(|(prefix, subtree)| {
                if *subtree {
                    crate::reflex::for_each_string(&crate::reflex::ALPHABET, l, prefix, &mut |s| sink.feed(s));
                } else {
                    let s: String = prefix.iter().map(|i| crate::reflex::ALPHABET[*i]).collect();
                    sink.feed(&s);
                }
            });
        }
        "tokens" => {
            let depth = tier.pick(13usize, 16usize);
            crate::c09::for_each_text(depth, None, &mut |s| sink.feed(s));
            let units = crate::c09::text_units();
            units.par_iter().enumerate().for_each(|(ui, u)| {
                crate::c09::for_each_text(depth, Some((ui, u)), &mut |s| sink.feed(s));
            });
        }
        "asts" => {
            // every hostile or unusual name in every naming role, and every short identifier in every role
            let mut named: Vec<String> = crate::c05::naming_sources();
            named.extend(crate::c05::chain_sources());
            named.extend(crate::c10::name_probe_files());
            named.extend(crate::names::relation_sources(tier.pick(2, 3)));
            named.extend(crate::c10::scaled_invalid_files(tier == Tier::Thorough));
            named.par_iter().for_each(|s| sink.feed(s));
            let m = tier.pick(3usize, 4usize);
            let items = crate::c10::item_alphabet();
            let n = items.len();
            sink.feed("");
            (0..n).into_par_iter().for_each(|a| {
                fn rec(idx: &mut Vec<usize>, n: usize, m: usize, items: &[String], sink: &Sink) {
                    let src: String = idx.iter().map(|i| items[*i].as_str()).collect::<Vec<_>>().join("\n");
                    sink.feed(&src);
                    if idx.len() >= m {
                        return;
                    }
                    for b in 0..n {
                        idx.push(b);
                        rec(idx, n, m, items, sink);
                        idx.pop();
                    }
                }
                rec(&mut vec![a], n, m, &items, sink);
            });
        }
        "grammars" => {
            crate::gramsweep::sweep(&grammar_specs(tier), 1e9, &|case, _idx, _acc| sink.feed(&case.rendered.source));
        }
        _ => machinery_error(format!("unknown C07 family {family}")),
    }
}

/// Entry point of the child process: `kiki-mc c07-family <family> <tier> [trace-file]`.
pub fn child_family(family: &str, tier: Tier, trace: Option<&str>) -> ! {
    let start = std::time::Instant::now();
    let trace_file = trace.map(|p| std::fs::OpenOptions::new().create(true).write(true).truncate(true).open(p).unwrap_or_else(|e| machinery_error(format!("trace file: {e}"))));
    let sink = Sink { start, inputs: AtomicU64::new(0), panics: Mutex::new(vec![]), panic_count: AtomicU64::new(0), trace: trace_file };
    spawn_monitor(start);
    run_family(family, tier, &sink);
    let panics = sink.panics.lock().unwrap().clone();
    println!("{}", json!({"done": true, "inputs": sink.inputs.load(Ordering::Relaxed), "panic_count": sink.panic_count.load(Ordering::Relaxed), "panics": panics, "wall_s": start.elapsed().as_secs_f64()}));
    std::process::exit(0);
}

// ---------------------------------------------------------------------------------------------
// Bound probes: one input per repeatable construct at the stated bounds (2000 declarations, 64 KiB, nesting 256)

pub fn probes() -> Vec<(&'static str, Box<dyn Fn() -> String>)> {
    const KIB64: usize = 64 * 1024;
    fn fill(mut s: String, unit: &dyn Fn(usize) -> String, tail: &str) -> String {
        let mut i = 0;
        loop {
            let u = unit(i);
            if s.len() + u.len() + tail.len() > KIB64 {
                break;
            }
            s.push_str(&u);
            i += 1;
        }
        s.push_str(tail);
        s
    }
    vec![
        ("2000 struct declarations", Box::new(|| {
            let mut s = String::from("start N0\nterminal Tok { $T: () }\n");
            for i in 0..1998 {
                s += &format!("struct N{i}\n");
            }
            s
        })),
        ("2000 start declarations", Box::new(|| (0..2000).map(|i| format!("start A{i}\n")).collect())),
        ("2000 terminal declarations", Box::new(|| (0..2000).map(|i| format!("terminal T{i} {{}}\n")).collect())),
        ("chain of 1000 nonterminals", Box::new(|| {
            let mut s = String::from("start N0\nterminal Tok { $T: () }\n");
            for i in 0..999 {
                s += &format!("struct N{i}(N{})\n", i + 1);
            }
            s += "struct N999($T)\n";
            s
        })),
        ("enum with 1000 variants over 1000 terminals", Box::new(|| {
            let mut s = String::from("start E\nenum E {\n");
            for i in 0..1000 {
                s += &format!("V{i}($T{i})\n");
            }
            s += "}\nterminal Tok {\n";
            for i in 0..1000 {
                s += &format!("$T{i}: ()\n");
            }
            s += "}\n";
            s
        })),
        ("64 KiB of unused terminals", Box::new(|| fill("start A\nstruct A\nterminal Tok {\n".into(), &|i| format!("$T{i}:()\n"), "}\n"))),
        ("struct with 64 KiB of tuple fields", Box::new(|| fill("start A\nterminal Tok { $T: () }\nstruct A(".into(), &|_| "$T ".into(), ")\n"))),
        ("struct with 64 KiB of named fields", Box::new(|| fill("start A\nterminal Tok { $T: () }\nstruct A {".into(), &|i| format!("f{i}:$T "), "}\n"))),
        ("struct with 64 KiB of underscore fields", Box::new(|| fill("start A\nterminal Tok { $T: () }\nstruct A {".into(), &|_| "_:$T ".into(), "}\n"))),
        ("64 KiB of attributes on one declaration", Box::new(|| fill("start A\nterminal Tok {}\n".into(), &|_| "#[a]".into(), "struct A\n"))),
        ("path of 64 KiB segments", Box::new(|| fill("start A\nstruct A\nterminal Tok { $T: a".into(), &|_| "::a".into(), " }\n"))),
        ("64 KiB of generic arguments", Box::new(|| fill("start A\nstruct A\nterminal Tok { $T: a<()".into(), &|_| ",()".into(), "> }\n"))),
        ("generic nesting 256", Box::new(|| format!("start A\nstruct A\nterminal Tok {{ $T: {}(){} }}\n", "a<".repeat(256), ">".repeat(256)))),
        ("generic nesting 256 with two arguments", Box::new(|| format!("start A\nstruct A\nterminal Tok {{ $T: {}(){} }}\n", "a<(),".repeat(256), ">".repeat(256)))),
        ("attribute bracket nesting 32 Ki", Box::new(|| format!("start A\n#[{}{}]\nstruct A\nterminal Tok {{}}\n", "(".repeat(32_000), ")".repeat(32_000)))),
        ("attribute of 64 KiB", Box::new(|| fill("start A\n#[".into(), &|_| "é".into(), "]\nstruct A\nterminal Tok {}\n"))),
        ("comment of 64 KiB", Box::new(|| fill("//".into(), &|_| "€".into(), "\nstart A\nstruct A\nterminal Tok {}\n"))),
        ("identifier of 64 KiB", Box::new(|| fill("start A\nterminal Tok {}\nstruct A".into(), &|_| "a".into(), "\n"))),
        ("whitespace of 64 KiB", Box::new(|| fill("start A".into(), &|i| ["\u{2003}", "\n", "\r\n", "\t"][i % 4].to_string(), "struct A\nterminal Tok {}\n"))),
        ("64 KiB of `$`", Box::new(|| "$".repeat(KIB64))),
        ("64 KiB of `(`", Box::new(|| format!("start A\nstruct A{}", "(".repeat(KIB64 - 20)))),
        ("64 KiB of `:`", Box::new(|| ":".repeat(KIB64))),
        ("ambiguous grammar with 30 binary operators", Box::new(|| {
            let mut s = String::from("start E\nenum E {\nId($Id)\n");
            for i in 0..30 {
                s += &format!("Op{i}(E $O{i} E)\n");
            }
            s += "}\nterminal Tok {\n$Id: ()\n";
            for i in 0..30 {
                s += &format!("$O{i}: ()\n");
            }
            s += "}\n";
            s
        })),
        ("list grammar with 60 alternatives", Box::new(|| {
            let mut s = String::from("start L\nenum L { Nil Cons(L I) }\nenum I {\n");
            for i in 0..60 {
                s += &format!("V{i}($T{i} L $T{i})\n");
            }
            s += "}\nterminal Tok {\n";
            for i in 0..60 {
                s += &format!("$T{i}: ()\n");
            }
            s += "}\n";
            s
        })),
        ("2000 enums without variants referencing each other", Box::new(|| {
            let mut s = String::from("start E0\nterminal Tok { $T: () }\n");
            for i in 0..1998 {
                s += &format!("enum E{i} {{ V(E{}) }}\n", (i + 1) % 1998);
            }
            s
        })),
    ]
}

// ---------------------------------------------------------------------------------------------
// Growth series: "within bounded time" at the stated bounds cannot be tested by running the bound itself when
// the cost explodes (nesting 256 at cost 2^depth never returns, and a time-out alone cannot tell that from a
// slow polynomial). Each series runs one construct at sizes 4, 8, 12, ... and looks at the *ratio* of the CPU
// times of consecutive sizes: a polynomial of degree <= 6 grows by less than a factor 10 per 4 more units
// once the size is >= 8 (12/8)^6 = 11.4 is the worst case, (16/12)^6 = 5.6 ...), an exponential with base
// >= 1.8 per unit grows by more than 10. kiki's own worst polynomial (automaton construction, about n^5)
// stays below 8 from size 8 on.

pub const GROWTH_STEP: usize = 4;
pub const GROWTH_MIN_CPU_S: f64 = 0.05;
pub const GROWTH_FACTOR: f64 = 12.0;
pub const GROWTH_STEP_LIMIT_S: u64 = 60;

pub fn growth_series() -> Vec<(&'static str, Box<dyn Fn(usize) -> String + Sync + Send>)> {
    vec![
        ("generic nesting, one argument per level", Box::new(|d| format!("start A\nstruct A($T)\nterminal Tok {{ $T: {}(){} }}\n", "a<".repeat(d), ">".repeat(d)))),
        ("generic nesting, two arguments per level", Box::new(|d| format!("start A\nstruct A($T)\nterminal Tok {{ $T: {}(){} }}\n", "a<b::C, ".repeat(d), ">".repeat(d)))),
        ("generic nesting, the nested argument first", Box::new(|d| format!("start A\nstruct A($T)\nterminal Tok {{ $T: {}(){} }}\n", "a<".repeat(d), ", u8>".repeat(d)))),
        ("chain of nonterminals", Box::new(|d| {
            let mut s = String::from("start N0\nterminal Tok { $T: () }\n");
            for i in 0..d {
                s += &format!("struct N{i}(N{})\n", i + 1);
            }
            s += &format!("struct N{d}($T)\n");
            s
        })),
        ("precedence levels of an expression grammar", Box::new(|l| {
            let f = crate::scaled::expr(l.min(59));
            crate::gramsweep::Case::new(f.g.clone(), crate::scopes::Presentation::plain(&f.g)).rendered.source
        })),
        ("right-nested optional lists", Box::new(|d| {
            let f = crate::scaled::nested(d.min(30));
            crate::gramsweep::Case::new(f.g.clone(), crate::scopes::Presentation::plain(&f.g)).rendered.source
        })),
        ("attributes on one declaration", Box::new(|k| format!("start A\n{}struct A\nterminal Tok {{}}\n", "#[a(b)]\n".repeat(k)))),
        ("attribute bracket nesting", Box::new(|d| format!("start A\n#[{}{}]\nstruct A\nterminal Tok {{}}\n", "(".repeat(d), ")".repeat(d)))),
    ]
}

fn cpu_seconds() -> f64 {
    // run time of this process in nanoseconds (first field of schedstat); wall clock as a fallback
    std::fs::read_to_string("/proc/self/schedstat").ok().and_then(|s| s.split_whitespace().next().and_then(|x| x.parse::<f64>().ok())).map(|ns| ns / 1e9).unwrap_or(-1.0)
}

/// Entry point of a growth child: `kiki-mc c07-growth <series> <size>`.
pub fn child_growth(series: usize, size: usize) -> ! {
    let gs = growth_series();
    let Some((_, make)) = gs.get(series) else { machinery_error("growth series index") };
    let src = make(size);
    let c0 = cpu_seconds();
    let t0 = std::time::Instant::now();
    let r = catch(|| kiki::generate(&src).map(|s| s.0.len()));
    let cpu = if c0 >= 0.0 { cpu_seconds() - c0 } else { t0.elapsed().as_secs_f64() };
    match r {
        Err(p) => println!("{}", json!({"panic": normalize_panic(&p), "bytes": src.len()})),
        Ok(x) => println!("{}", json!({"cpu_s": cpu, "wall_s": t0.elapsed().as_secs_f64(), "bytes": src.len(), "ok": x.is_ok()})),
    }
    std::process::exit(0);
}

/// One step of a series: Some(cpu seconds), or None if it did not finish within the step limit.
fn growth_step(series: usize, size: usize) -> Result<Option<f64>, String> {
    let r = run_child(&["c07-growth".into(), series.to_string(), size.to_string()], GROWTH_STEP_LIMIT_S, true);
    if r.timed_out {
        return Ok(None);
    }
    let v: Value = serde_json::from_str(r.stdout.lines().last().unwrap_or("")).unwrap_or(Value::Null);
    if let Some(p) = v["panic"].as_str() {
        return Err(format!("panic: {p}"));
    }
    if !r.ok {
        return Err(r.signal_or_code);
    }
    v["cpu_s"].as_f64().map(Some).ok_or_else(|| "unreadable child output".to_string())
}

fn growth_finding(name: &str, a: usize, ta: f64, b: usize, tb: Option<f64>) -> Finding {
    let tb_s = tb.map(|t| format!("{t:.2} s")).unwrap_or_else(|| format!("no return within {GROWTH_STEP_LIMIT_S} s"));
    Finding::new(
        "growth_total",
        json!({"series": name, "size_a": a, "size_b": b}),
        format!("generate's running time explodes with '{name}': size {a} takes {ta:.2} s of CPU time, size {b} takes {tb_s} - more than a factor {GROWTH_FACTOR} for {GROWTH_STEP} more units, i.e. exponential growth; at the stated bound (256 levels / 64 KiB) it does not return within any bounded time"),
        json!(format!("at most a factor {GROWTH_FACTOR} per {GROWTH_STEP} more units (any polynomial of degree <= 6)")),
        json!("exponential growth"),
    )
}

/// Runs one series up to `max_size`; stops once a step needs more than 5 s. Returns (report, finding).
fn run_growth(si: usize, name: &str, max_size: usize) -> (Value, Option<Finding>) {
    let mut times: Vec<(usize, Option<f64>)> = vec![];
    let mut size = GROWTH_STEP;
    let mut finding = None;
    while size <= max_size {
        match growth_step(si, size) {
            Err(e) => {
                // a panic or an abort at this size: the probe family reports those; here the series just ends
                times.push((size, None));
                return (json!({"series": name, "cpu_seconds_by_size": times, "ended_by": e}), None);
            }
            Ok(t) => {
                if let Some(&(ps, Some(pt))) = times.last() {
                    let exploded = match t {
                        Some(t) => pt >= GROWTH_MIN_CPU_S && t > GROWTH_FACTOR * pt,
                        None => pt <= GROWTH_STEP_LIMIT_S as f64 / GROWTH_FACTOR,
                    };
                    if exploded && ps >= 2 * GROWTH_STEP {
                        finding = Some(growth_finding(name, ps, pt, size, t));
                    }
                }
                times.push((size, t));
                if finding.is_some() || t.map(|t| t > 5.0).unwrap_or(true) {
                    break;
                }
            }
        }
        size += GROWTH_STEP;
    }
    (json!({"series": name, "cpu_seconds_by_size": times.iter().map(|(s, t)| json!([s, t.map(|x| (x * 1000.0).round() / 1000.0)])).collect::<Vec<_>>()}), finding)
}

/// Entry point of a probe child: `kiki-mc c07-probe <index>`.
pub fn child_probe(index: usize) -> ! {
    let ps = probes();
    let Some((_, make)) = ps.get(index) else { machinery_error("probe index") };
    let src = make();
    let t0 = std::time::Instant::now();
    let r = catch(|| kiki::generate(&src).map(|s| s.0.len()));
    let desc = match r {
        Ok(Ok(n)) => format!("Ok ({n} bytes emitted)"),
        Ok(Err(e)) => format!("Err({})", format!("{e:?}").chars().take(80).collect::<String>()),
        Err(p) => {
            println!("{}", json!({"panic": normalize_panic(&p), "bytes": src.len()}));
            std::process::exit(0);
        }
    };
    println!("{}", json!({"result": desc, "bytes": src.len(), "wall_s": t0.elapsed().as_secs_f64()}));
    std::process::exit(0);
}

// ---------------------------------------------------------------------------------------------
// Parent

struct ChildResult {
    stdout: String,
    signal_or_code: String,
    ok: bool,
    timed_out: bool,
}

fn run_child(args: &[String], limit_s: u64, sequential: bool) -> ChildResult {
    let exe = std::env::current_exe().unwrap_or_else(|e| machinery_error(format!("current_exe: {e}")));
    let mut cmd = std::process::Command::new(exe);
    cmd.args(args).stdout(std::process::Stdio::piped()).stderr(std::process::Stdio::null());
    if sequential {
        cmd.env("RAYON_NUM_THREADS", "1");
    }
    let mut child = cmd.spawn().unwrap_or_else(|e| machinery_error(format!("cannot start child: {e}")));
    let mut so = child.stdout.take().unwrap();
    let reader = std::thread::spawn(move || {
        use std::io::Read;
        let mut s = String::new();
        let _ = so.read_to_string(&mut s);
        s
    });
    let t0 = std::time::Instant::now();
    let mut timed_out = false;
    let status = loop {
        match child.try_wait() {
            Ok(Some(st)) => break Some(st),
            Ok(None) => {
                if t0.elapsed().as_secs() > limit_s {
                    let _ = child.kill();
                    let _ = child.wait();
                    timed_out = true;
                    break None;
                }
                std::thread::sleep(std::time::Duration::from_millis(50));
            }
            Err(_) => break None,
        }
    };
    let stdout = reader.join().unwrap_or_default();
    let (ok, desc) = match status {
        Some(st) if st.success() => (true, "exit 0".to_string()),
        Some(st) => {
            use std::os::unix::process::ExitStatusExt;
            (false, match st.signal() { Some(sig) => format!("killed by signal {sig}"), None => format!("exit code {:?}", st.code()) })
        }
        None => (false, "timeout".to_string()),
    };
    ChildResult { stdout, signal_or_code: desc, ok, timed_out }
}

fn total_finding(src: &str, what: String, observed: String) -> Finding {
    Finding::new("source_total", json!({"source": src}), what, json!("generate returns Ok or Err"), json!(observed))
}

pub fn run(ctx: &Ctx) -> Outcome {
    let mut out = Outcome::new("exploration");
    let tier_name = ctx.tier.name().to_string();
    let mut evaluations = 0u64;
    let mut scopes = vec![];
    let family_limit = ctx.tier.pick(900u64, 7200u64);
    for family in ["strings", "tokens", "asts", "grammars"] {
        let r = run_child(&["c07-family".into(), family.into(), tier_name.clone()], family_limit, false);
        let last = r.stdout.lines().last().unwrap_or("").to_string();
        let v: Value = serde_json::from_str(&last).unwrap_or(Value::Null);
        let mut completed = false;
        if r.ok && v["done"].as_bool() == Some(true) {
            completed = true;
            evaluations += v["inputs"].as_u64().unwrap_or(0);
            for p in v["panics"].as_array().cloned().unwrap_or_default() {
                let (src, msg) = (p[0].as_str().unwrap_or(""), p[1].as_str().unwrap_or(""));
                out.push(total_finding(src, format!("generate panicked: {msg} — source {:?}", src.chars().take(200).collect::<String>()), format!("panic: {msg}")));
            }
            let pc = v["panic_count"].as_u64().unwrap_or(0);
            if pc > out.violating_cases {
                out.violating_cases = pc;
            }
        } else if let Some(h) = v["hang"].as_str() {
            out.push(total_finding(h, format!("generate did not return within {PER_INPUT_LIMIT_S} s — source {:?}", h.chars().take(200).collect::<String>()), format!("no return within {PER_INPUT_LIMIT_S} s")));
        } else if r.timed_out {
            scopes.push(json!({"name": family, "completed": false, "exhaustive": false, "capped_by": format!("family time limit {family_limit} s")}));
            continue;
        } else {
            // the child died (stack overflow, allocation failure, abort): find the input in trace mode
            let trace = std::env::temp_dir().join(format!("kiki-mc-c07-trace-{}-{family}", std::process::id()));
            let r2 = run_child(&["c07-family".into(), family.into(), tier_name.clone(), trace.display().to_string()], family_limit * 4, true);
            let culprit = std::fs::read_to_string(&trace).unwrap_or_default();
            let _ = std::fs::remove_file(&trace);
            if r2.ok {
                machinery_error(format!("C07: the {family} child died ({}) but the sequential rerun completed; the crash cannot be attributed to an input", r.signal_or_code));
            }
            out.push(total_finding(&culprit, format!("generate aborted the process ({}) — source {:?}", r2.signal_or_code, culprit.chars().take(200).collect::<String>()), r2.signal_or_code.clone()));
        }
        scopes.push(json!({"name": family, "scope": family_scope(family, ctx.tier), "size": v["inputs"], "completed": completed, "exhaustive": completed, "wall_s": v["wall_s"]}));
    }
    // bound probes, one child each
    let ps = probes();
    let probe_results: Vec<(usize, ChildResult)> = (0..ps.len()).into_par_iter().map(|i| (i, run_child(&["c07-probe".into(), i.to_string()], PROBE_LIMIT_S, false))).collect();
    let mut probe_report = vec![];
    for (i, r) in probe_results {
        let name = ps[i].0;
        let v: Value = serde_json::from_str(r.stdout.lines().last().unwrap_or("")).unwrap_or(Value::Null);
        evaluations += 1;
        let case = json!({"probe": name});
        if let Some(p) = v["panic"].as_str() {
            out.push(Finding::new("probe_total", case, format!("generate panicked on the bound probe '{name}': {p}"), json!("Ok or Err"), json!(format!("panic: {p}"))));
            probe_report.push(json!({"probe": name, "result": format!("panic: {p}")}));
        } else if r.timed_out {
            // slow is not the same as looping: the automaton construction is polynomial of high degree
            // (measured ~n^5 in the number of alternatives), so a time-out on a large input is inconclusive
            probe_report.push(json!({"probe": name, "result": format!("inconclusive: no result within {PROBE_LIMIT_S} s (not counted as a violation)")}));
        } else if !r.ok {
            out.push(Finding::new("probe_total", case, format!("generate did not survive the bound probe '{name}': {}", r.signal_or_code), json!("Ok or Err"), json!(r.signal_or_code)));
            probe_report.push(json!({"probe": name, "result": r.signal_or_code}));
        } else {
            probe_report.push(json!({"probe": name, "bytes": v["bytes"], "result": v["result"], "wall_s": v["wall_s"]}));
        }
    }
    // growth series (CPU time per size, each size in its own single-threaded child)
    let gs = growth_series();
    let growth: Vec<(Value, Option<Finding>)> = (0..gs.len()).into_par_iter().map(|i| run_growth(i, gs[i].0, 64)).collect();
    let mut growth_report = vec![];
    for (rep, f) in growth {
        growth_report.push(rep);
        if let Some(f) = f {
            out.push(f);
        }
    }
    out.cov("growth_series", json!(growth_report));
    let exhaustive = scopes.iter().all(|s| s["completed"].as_bool().unwrap_or(false));
    out.cov("evaluations", json!(evaluations));
    out.cov("distinct_nontrivial", json!(evaluations.saturating_sub(1)));
    out.cov("rule", json!("every input of the four exhaustive families (all distinct texts; non-trivial = non-empty) is given to the real generate under catch_unwind, in a child process with a per-input watchdog of 120 s; plus one bound probe per repeatable construct at the stated bounds, each in its own child (a probe that does not finish within 300 s is reported as inconclusive, not as a violation: slow is not looping); plus growth series that tell exponential cost from polynomial cost by the ratio of CPU times at consecutive sizes"));
    out.cov("exhaustive", json!(exhaustive));
    out.cov("exhaustive_note", json!("exhaustive refers to the four small-scope families only; between them and the bound probes the claim rests on the small-scope hypothesis (the 64-KiB string space is not enumerable)"));
    out.cov("scopes", json!(scopes));
    out.cov("bound_probes", json!(probe_report));
    out.cov("samples", json!(["#[€]struct A", "start A\nstruct A(E)\nenum E {}\nterminal Tok {}", "$start(", "a<a<()>>"]));
    out.assumptions = vec!["an abort is observed as the death of the child process; a hang as no return within 120 s on the small inputs of the exhaustive families (about 10^5 times their normal cost)".into(), "main-thread stack of the child (8 MiB) and rayon worker stacks (2 MiB) stand for 'the host stack'".into()];
    out
}

pub fn replay(kind: &str, case: &Value) -> Option<Vec<Finding>> {
    match kind {
        "source_total" => {
            let src = case["source"].as_str()?;
            // in a child, so that an abort or hang is observed
            let dir = std::env::temp_dir().join(format!("kiki-mc-c07-replay-{}", std::process::id()));
            std::fs::write(&dir, src).ok()?;
            let r = run_child(&["c07-one".into(), dir.display().to_string()], 120, false);
            let _ = std::fs::remove_file(&dir);
            let v: Value = serde_json::from_str(r.stdout.lines().last().unwrap_or("")).unwrap_or(Value::Null);
            Some(if let Some(p) = v["panic"].as_str() {
                vec![total_finding(src, format!("generate panicked: {p}"), format!("panic: {p}"))]
            } else if !r.ok {
                vec![total_finding(src, format!("generate did not return: {}", r.signal_or_code), r.signal_or_code)]
            } else {
                vec![]
            })
        }
        "growth_total" => {
            let name = case["series"].as_str()?;
            let (a, b) = (case["size_a"].as_u64()? as usize, case["size_b"].as_u64()? as usize);
            let si = growth_series().iter().position(|g| g.0 == name)?;
            let ta = growth_step(si, a).ok()??;
            let tb = growth_step(si, b).ok()?;
            let exploded = match tb {
                Some(t) => ta >= GROWTH_MIN_CPU_S && t > GROWTH_FACTOR * ta,
                None => ta <= GROWTH_STEP_LIMIT_S as f64 / GROWTH_FACTOR,
            };
            Some(if exploded { vec![growth_finding(name, a, ta, b, tb)] } else { vec![] })
        }
        "probe_total" => {
            let name = case["probe"].as_str()?;
            let i = probes().iter().position(|p| p.0 == name)?;
            let r = run_child(&["c07-probe".into(), i.to_string()], PROBE_LIMIT_S, false);
            let v: Value = serde_json::from_str(r.stdout.lines().last().unwrap_or("")).unwrap_or(Value::Null);
            Some(if let Some(p) = v["panic"].as_str() {
                vec![Finding::new("probe_total", case.clone(), format!("panic on probe: {p}"), json!("Ok or Err"), json!(format!("panic: {p}")))]
            } else if r.timed_out {
                vec![]
            } else if !r.ok {
                vec![Finding::new("probe_total", case.clone(), format!("probe failed: {}", r.signal_or_code), json!("Ok or Err within 600 s"), json!(r.signal_or_code))]
            } else {
                vec![]
            })
        }
        _ => None,
    }
}

/// `kiki-mc c07-one <file>`: generate on the file's content, in this process.
pub fn child_one(path: &str) -> ! {
    let src = std::fs::read_to_string(path).unwrap_or_default();
    match catch(|| kiki::generate(&src).map(|_| ())) {
        Err(p) => println!("{}", json!({"panic": normalize_panic(&p)})),
        Ok(_) => println!("{}", json!({"ok": true})),
    }
    std::process::exit(0);
}
