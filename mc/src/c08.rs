//! C08 — source text is tokenised exactly per the documented lexical rules.
//! Explores all strings of at most l symbols over the 30-symbol alphabet; oracle: R-lex.

use crate::common::*;
use crate::gramsweep::Acc;
use crate::reflex::*;
use rayon::prelude::*;
use serde_json::{json, Value};

fn show_char(c: Option<char>) -> Value {
    match c {
        Some(c) => json!(c.to_string()),
        None => Value::Null,
    }
}

/// Checks one source text. Returns the description of the first disagreement.
pub fn check_source(src: &str, acc: &mut Acc) -> Option<(String, Value, Value)> {
    let r = rlex(src);
    let k = catch(|| kiki::verif_hooks::tokenize(src));
    let g = catch(|| kiki::generate(src));
    let expected: Value = match &r {
        Ok(toks) => json!({"tokens": toks.iter().map(|t| json!([format!("{:?}", t.kind), t.text(src), t.start])).collect::<Vec<_>>()}),
        Err((i, c)) => json!({"lex_error": {"byte_index": i, "char": show_char(*c)}}),
    };
    match (&r, &k) {
        (_, Err(p)) => return Some((format!("the tokenizer panicked: {}", normalize_panic(p)), expected, json!(format!("panic: {}", normalize_panic(p))))),
        (Ok(rt), Ok(Ok(kt))) => {
            acc.inc("lexable strings");
            acc.add("tokens compared", rt.len() as u64);
            let got: Vec<(Kind, String, usize)> = kt.iter().map(describe_kiki_token).collect();
            let want: Vec<(Kind, String, usize)> = rt.iter().map(|t| (t.kind.clone(), t.text(src).to_string(), t.start)).collect();
            if got != want {
                return Some(("the token sequence differs from the documented lexical rules".to_string(), expected, json!({"tokens": got.iter().map(|t| json!([format!("{:?}", t.0), t.1, t.2])).collect::<Vec<_>>()})));
            }
        }
        (Err((i, c)), Ok(Err(kiki::KikiErr::Lex(ki, kc)))) => {
            acc.inc("strings with a lexical error");
            if ki.0 != *i || kc != c {
                return Some((
                    format!("lexical error reported at byte {} ({:?}); the first offending character is at byte {} ({:?})", ki.0, kc, i, c),
                    expected,
                    json!({"lex_error": {"byte_index": ki.0, "char": show_char(*kc)}}),
                ));
            }
            // weak universal oracle: the reported index and character describe the source
            let ok = match c {
                Some(ch) => src.is_char_boundary(*i) && src[*i..].starts_with(*ch),
                None => *i == src.len(),
            };
            if !ok {
                acc.self_check_errors.push(format!("reference self-check: R-lex error ({i}, {c:?}) does not describe {src:?}"));
            }
        }
        (Ok(_), Ok(Err(e))) => return Some(("a lexable text was rejected by the tokenizer".to_string(), expected, json!(format!("{e:?}")))),
        (Err(_), Ok(Ok(kt))) => {
            return Some(("a text with a lexical error was tokenised".to_string(), expected, json!({"tokens": kt.iter().map(describe_kiki_token).map(|t| json!([format!("{:?}", t.0), t.1, t.2])).collect::<Vec<_>>()})));
        }
        (Err(_), Ok(Err(e))) => return Some(("a lexical error was reported as a different kind of error".to_string(), expected, json!(format!("{e:?}")))),
    }
    // the same through the public API
    match (&r, &g) {
        (_, Err(p)) => Some((format!("generate panicked: {}", normalize_panic(p)), expected, json!(format!("panic: {}", normalize_panic(p))))),
        (Ok(_), Ok(Err(kiki::KikiErr::Lex(i, c)))) => Some(("generate reports a lexical error for a lexable text".to_string(), expected, json!({"lex_error": {"byte_index": i.0, "char": show_char(*c)}}))),
        (Err((i, c)), Ok(Err(kiki::KikiErr::Lex(ki, kc)))) => {
            if ki.0 != *i || kc != c {
                Some((format!("generate reports the lexical error at byte {} ({:?}) instead of byte {} ({:?})", ki.0, kc, i, c), expected, json!({"lex_error": {"byte_index": ki.0, "char": show_char(*kc)}})))
            } else {
                None
            }
        }
        (Err(_), Ok(other)) => Some((
            "generate does not report the lexical error".to_string(),
            expected,
            json!(match other {
                Ok(_) => "Ok".to_string(),
                Err(e) => format!("{e:?}").chars().take(200).collect::<String>(),
            }),
        )),
        _ => None,
    }
}

fn finding(src: &str, what: String, expected: Value, observed: Value) -> Finding {
    Finding::new("lex_case", json!({"source": src}), format!("{what} — source {src:?}"), expected, observed)
}

pub fn run(ctx: &Ctx) -> Outcome {
    let mut out = Outcome::new("exploration");
    // Pass 1 (always completed): every string of at most `l` symbols. Pass 2 (thorough only): every string
    // of at most l+1 symbols under a wall-clock budget; it is reported as its own scope, so a capped pass 2
    // never weakens what pass 1 states.
    let l = ctx.tier.pick(5usize, 6usize);
    let mut scopes: Vec<Value> = vec![];
    let mut acc = Acc::default();
    let passes: Vec<(usize, f64)> = if ctx.tier == Tier::Thorough { vec![(l, f64::INFINITY), (l + 1, 5400.0)] } else { vec![(l, f64::INFINITY)] };
    let mut deepest_complete = 0usize;
    for (len, budget) in passes {
        let units = string_units(ALPHABET.len(), len, 3);
        let t0 = std::time::Instant::now();
        let capped = std::sync::atomic::AtomicBool::new(false);
        let accs: Vec<Acc> = units
            .par_iter()
            .map(|(prefix, subtree)| {
                let mut acc = Acc::default();
                if t0.elapsed().as_secs_f64() > budget {
                    capped.store(true, std::sync::atomic::Ordering::Relaxed);
                    return acc;
                }
                let mut visit = |s: &str| {
                    acc.inc("strings");
                    if let Some((what, e, o)) = check_source(s, &mut acc) {
                        acc.finding(finding(s, what, e, o));
                    }
                };
                if *subtree {
                    for_each_string(&ALPHABET, len, prefix, &mut visit);
                } else {
                    let s: String = prefix.iter().map(|i| ALPHABET[*i]).collect();
                    visit(&s);
                }
                acc
            })
            .collect();
        let mut pass_acc = Acc::default();
        for a in accs {
            pass_acc.merge(a);
        }
        let was_capped = capped.load(std::sync::atomic::Ordering::Relaxed);
        if !was_capped {
            deepest_complete = len;
        }
        scopes.push(json!({"name": format!("strings<= {len} symbols"), "size": pass_acc.get("strings"), "completed": !was_capped, "exhaustive": !was_capped, "capped_by": if was_capped { json!("wall-clock budget") } else { Value::Null }}));
        acc.merge(pass_acc);
    }
    let l = deepest_complete;
    // every Unicode scalar value, in the contexts where the tokenizer classifies characters
    // (between tokens, inside identifiers, after `$`, `:`, `#`, `/`, inside comments and attributes)
    let contexts: [(&str, &str); 10] = [("", ""), ("a", "b"), ("start ", "A"), ("$", ""), ("$T", ""), (":", ":"), ("#", "]"), ("#[", "]"), ("//", "\n_"), ("/", "/")];
    let char_accs: Vec<Acc> = (0u32..0x11_0000)
        .into_par_iter()
        .step_by(1)
        .fold(Acc::default, |mut acc, cp| {
            if let Some(c) = char::from_u32(cp) {
                for (pre, post) in contexts.iter() {
                    let s = format!("{pre}{c}{post}");
                    acc.inc("strings");
                    acc.inc("single-character probes (every Unicode scalar value x 10 contexts)");
                    if let Some((what, e, o)) = check_source(&s, &mut acc) {
                        acc.finding(finding(&s, what, e, o));
                    }
                }
            }
            acc
        })
        .collect();
    for a in char_accs {
        acc.merge(a);
    }
    // long runs of one symbol (counters, saturating arithmetic, nesting depths at powers of two)
    let mut runs: Vec<String> = vec![];
    let lens: Vec<usize> = (6..=40).chain([63, 64, 65, 127, 128, 129, 255, 256, 257, 300, 1000, 4095, 4096, 4097, 65535, 65536, 65537]).collect();
    for sym in ALPHABET.iter() {
        for n in &lens {
            if *n > 300 && !matches!(*sym, "(" | ")" | "[" | "]" | "{" | "}" | ":" | "a" | "_" | "$" | "/" | " " | "#") {
                continue;
            }
            let r = sym.repeat(*n);
            runs.push(r.clone());
            runs.push(format!("#[{r}]"));
            runs.push(format!("a{r}"));
            runs.push(format!("{r}a"));
            runs.push(format!("${r}"));
            if matches!(*sym, "(" | "[" | "{") {
                let close = match *sym { "(" => ")", "[" => "]", _ => "}" };
                runs.push(format!("#[{r}{}]", close.repeat(*n)));
                runs.push(format!("#[{r}{}]", close.repeat(*n - 1)));
                runs.push(format!("#[{r}{}]]", close.repeat(*n)));
            }
        }
    }
    let run_accs: Vec<Acc> = runs
        .par_iter()
        .map(|s| {
            let mut a = Acc::default();
            a.inc("strings");
            a.inc("long-run probes");
            if let Some((what, e, o)) = check_source(s, &mut a) {
                let shown: String = if s.len() > 120 { format!("{}… ({} bytes)", s.chars().take(60).collect::<String>(), s.len()) } else { s.clone() };
                a.finding(Finding::new("lex_case", json!({"source": s}), format!("{what} — source {shown:?}"), e, o));
            }
            a
        })
        .collect();
    for a in run_accs {
        acc.merge(a);
    }
    // corpus: the repository's own grammar files and a few hand-picked maximal-munch / attribute cases
    let mut corpus: Vec<String> = crate::corpus::repo_sources().into_iter().map(|(_, s)| s).collect();
    for s in [":::", "::::", "a:::b", "$a$b", "#[a(b[c{d}e]f)g]", "#[(]]", "start A\n#[(]]", "#[doc = \"é\"]", "#[€]struct A", "#[a", "#[a\n]", "#[(\n", "$start", "$_", "$_a", "$enumx", "// é€😀\r\nstart", "a\u{85}b", "a\u{a0}b", "a\u{feff}b", "\u{2028}start", "x/", "x//", "x/ /"] {
        corpus.push(s.to_string());
    }
    for s in &corpus {
        acc.inc("strings");
        acc.inc("corpus texts");
        if let Some((what, e, o)) = check_source(s, &mut acc) {
            acc.finding(finding(s, what, e, o));
        }
    }
    if let Some(e) = acc.self_check_errors.iter().find(|e| e.starts_with("reference self-check")) {
        machinery_error(format!("C08: {e}"));
    }
    let n = acc.get("strings");
    out.cov("evaluations", json!(n));
    out.cov("distinct_nontrivial", json!(n.saturating_sub(1)));
    out.cov("rule", json!(format!("all strings of at most {l} symbols over the 30-symbol alphabet {:?} (one representative per lexer character class and UTF-8 length, all reserved words); every Unicode scalar value in 10 contexts (between tokens, in identifiers, after $ : # /, in comments and attributes); plus the repository's grammar files and hand-picked cases; all strings are distinct; non-trivial = non-empty", ALPHABET)));
    out.cov("exhaustive", json!(true));
    out.cov("exhaustive_note", json!(format!("exhaustive for all strings of at most {l} symbols and for the Unicode sweep; any deeper pass that hit its budget is listed as not completed under scopes")));
    out.cov("scopes", json!(scopes));
    out.cov("histogram", json!(acc.counters));
    out.cov("samples", json!(["#[a(b)]$Zz::9", "a\u{2003}:::€", "$start(", "// é\n_"]));
    out.violating_cases = acc.violating;
    out.findings = acc.findings;
    out.assumptions = vec!["R-lex (appendix B of DESIGN.md) is the reading of the documented rules; strings longer than the bound rest on the small-scope hypothesis (the tokenizer is a 9-state machine)".into()];
    out
}

pub fn replay(kind: &str, case: &Value) -> Option<Vec<Finding>> {
    if kind != "lex_case" {
        return None;
    }
    let src = case["source"].as_str()?;
    let mut acc = Acc::default();
    Some(match check_source(src, &mut acc) {
        Some((what, e, o)) => vec![finding(src, what, e, o)],
        None => vec![],
    })
}
