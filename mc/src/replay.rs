//! Single-case replay: re-executes one recorded case on the real code with the property's oracle,
//! without any explorer. Used by `./check replay <file>` and to confirm findings before reporting.

use crate::common::*;
use serde_json::Value;

/// `None`: this kind has no single-case replayer. `Some(v)`: the findings the case produces now.
pub fn run_case(property: &str, kind: &str, case: &Value) -> Option<Vec<Finding>> {
    match property {
        "C18" => crate::c18::replay(kind, case),
        "C05" => crate::c05::replay(kind, case),
        "C06" => crate::c06::replay(kind, case),
        "C08" => crate::c08::replay(kind, case),
        "C09" => crate::c09::replay(kind, case),
        "C10" => crate::c10::replay(kind, case),
        "C15" => crate::c15::replay(kind, case),
        "C07" => crate::c07::replay(kind, case),
        "C14" => crate::c14::replay(kind, case),
        "C16" => crate::c16::replay(kind, case),
        "C13" => crate::c13::replay(kind, case),
        "C12" => crate::c12::replay(kind, case),
        "C04" | "C11" | "C17" | "C01" | "C02" | "C03" => crate::gramsweep::replay(property, kind, case),
        _ => None,
    }
}

pub fn replay_file(path: &str) -> i32 {
    let text = match std::fs::read_to_string(path) {
        Ok(t) => t,
        Err(e) => machinery_error(format!("cannot read {path}: {e}")),
    };
    let v: Value = match serde_json::from_str(&text) {
        Ok(v) => v,
        Err(e) => machinery_error(format!("{path} does not parse: {e}")),
    };
    let property = v["property"].as_str().unwrap_or("");
    let kind = v["kind"].as_str().unwrap_or("");
    match run_case(property, kind, &v["case"]) {
        None => {
            println!("no single-case replayer for kind '{kind}' of {property}; re-run the check instead");
            2
        }
        Some(fs) if fs.is_empty() => {
            println!("REPLAY property={property}: the case no longer violates the property");
            0
        }
        Some(fs) => {
            for f in &fs {
                println!("VIOLATION property={property} replay={path}");
                println!("  what: {}", f.what);
                println!("  expected: {}", f.expected);
                println!("  observed: {}", f.observed);
            }
            1
        }
    }
}
