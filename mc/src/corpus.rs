//! Corpus of Kiki sources used by the text-level checks: the repository's own grammar files
//! (examples, should-fail files, parser.kiki) read from /repo's working tree.

use crate::common::repo;

pub fn repo_sources() -> Vec<(String, String)> {
    let mut out = vec![];
    let root = repo().join("kiki/src");
    for dir in ["examples", "examples/should_fail", ""] {
        let d = root.join(dir);
        let Ok(rd) = std::fs::read_dir(&d) else { continue };
        let mut entries: Vec<_> = rd.filter_map(|e| e.ok()).map(|e| e.path()).filter(|p| p.extension().map_or(false, |x| x == "kiki")).collect();
        entries.sort();
        for p in entries {
            if let Ok(s) = std::fs::read_to_string(&p) {
                out.push((p.strip_prefix(repo()).unwrap_or(&p).display().to_string(), s));
            }
        }
    }
    out
}

/// Sources of the repository that `generate` accepts (examples and parser.kiki).
pub fn accepted_repo_sources() -> Vec<(String, String)> {
    repo_sources().into_iter().filter(|(n, _)| !n.contains("should_fail")).collect()
}
