//! Real-code layer of C01 / C02 / C03: every accepted grammar of the real-code scope is emitted by the
//! real `generate`, compiled by rustc and its real `parse` is run over the input trie; observations
//! are compared with the reference LR(1) driver (trees, error token, end of input, iterator consumption).

use crate::common::*;
use crate::gramsweep::{generate, Acc, Case, Gen, Spec};
use crate::refgram::*;
use crate::rustrun::{run_real, Obs, RealModule, RealResults};
use crate::scopes::*;
use serde_json::{json, Value};

/// Expected `{:?}` rendering (derive(Debug)) of a derivation tree; `const_payload` renders every token payload as 0.
pub fn render_tree(case: &Case, tree: &Tree, const_payload: bool) -> String {
    match tree {
        Tree::Leaf(i) => {
            if const_payload {
                "0".to_string()
            } else {
                i.to_string()
            }
        }
        Tree::Node(p, kids) => {
            let p = *p as usize;
            let (ty, variant) = &case.rendered.names.constructors[p];
            let name = variant.clone().unwrap_or_else(|| ty.clone());
            let style = &case.pres.styles[p];
            let used: Vec<usize> = (0..kids.len()).filter(|i| !style.skipped(*i)).collect();
            if used.is_empty() {
                return name;
            }
            if style.named {
                let parts: Vec<String> = used.iter().map(|i| format!("{}: {}", case.rendered.names.fields[p][*i].clone().unwrap_or_default(), render_tree(case, &kids[*i], const_payload))).collect();
                format!("{} {{ {} }}", name, parts.join(", "))
            } else {
                let parts: Vec<String> = used.iter().map(|i| render_tree(case, &kids[*i], const_payload)).collect();
                format!("{}({})", name, parts.join(", "))
            }
        }
    }
}

/// Positions of the tokens held by used terminal fields, left to right, and of those skipped by `_` fields.
fn leaf_positions(case: &Case, tree: &Tree, used: &mut Vec<usize>, skipped: &mut Vec<usize>, is_skipped: bool) {
    match tree {
        Tree::Leaf(i) => {
            if is_skipped {
                skipped.push(*i)
            } else {
                used.push(*i)
            }
        }
        Tree::Node(p, kids) => {
            let style = &case.pres.styles[*p as usize];
            for (i, k) in kids.iter().enumerate() {
                leaf_positions(case, k, used, skipped, is_skipped || style.skipped(i));
            }
        }
    }
}

pub struct RealCase {
    pub case: Case,
    pub text: String,
    pub depth: usize,
}

pub fn with_debug(mut pres: Presentation) -> Presentation {
    pres.attribute = "#[derive(Debug)]".into();
    pres.payload = "usize".into();
    pres
}

/// All accepted grammars of the specs, under their rotating presentation (with Debug derives and usize payloads).
pub fn collect(specs: &[Spec], depth_deep: bool, extra_presentations: u64) -> (Vec<RealCase>, Vec<Value>) {
    let mut out = vec![];
    let mut scopes = vec![];
    for spec in specs {
        let mut n = 0u64;
        let before = out.len();
        let mut add_with = |gr: Grammar, pres: Presentation, out: &mut Vec<RealCase>, n: &mut u64| {
            *n += 1;
            // deep enough for the longest right-hand side (long fieldsets have a single viable path, so this is cheap)
            let longest = gr.prods.iter().map(|p| p.1.len()).max().unwrap_or(0);
            let depth = if gr.t > 8 { crate::pda::depth_for(gr.t, depth_deep) } else { 6.max(longest + 2) };
            let case = Case::new(gr, with_debug(pres));
            if let Gen::Ok(text) = generate(&case.rendered.source) {
                out.push(RealCase { case, text, depth });
            }
        };
        if let Spec::PSpace { max_fields, recursion } = spec {
            for p in crate::pspace::patterns(*max_fields, *recursion).into_iter().chain(crate::pspace::long_patterns(crate::pspace::LONG_MAX)) {
                let (gr, pres, _) = crate::pspace::build(&p);
                add_with(gr, pres, &mut out, &mut n);
            }
            scopes.push(json!({"name": spec.name(), "size": n, "accepted_modules": out.len() - before, "completed": true, "exhaustive": true, "layer": "real code (rustc-compiled parse)"}));
            continue;
        }
        let mut add = |gr: Grammar, idx: u64, out: &mut Vec<RealCase>| {
            n += 1;
            for v in 0..=extra_presentations {
                let pres = if v == 0 && idx == u64::MAX { Presentation::plain(&gr) } else { Presentation::rotating(&gr, idx.wrapping_add(v.wrapping_mul(7919))) };
                let case = Case::new(gr.clone(), with_debug(pres));
                if let Gen::Ok(text) = generate(&case.rendered.source) {
                    let depth = crate::pda::depth_for(case.g.t, depth_deep).min(if case.g.t >= 2 { 7 } else { 10 });
                    out.push(RealCase { case, text, depth });
                }
            }
        };
        match spec {
            Spec::G(sc) => {
                let rhss = all_rhs(sc.n, sc.t, sc.k);
                let mut idx = 0u64;
                for unit in work_units(sc, u128::MAX) {
                    for_each_completion(sc, &rhss, &unit, &mut |gr| {
                        add(gr, idx, &mut out);
                        idx += 1;
                    });
                }
            }
            Spec::Nbh { seed, k, cap } => {
                let sg = seeds().into_iter().find(|(nm, _)| nm == seed).expect("seed").1;
                let (list, _) = neighbourhood(&sg, *k, *cap);
                for (j, gr) in list.into_iter().enumerate() {
                    add(gr, if j == 0 { u64::MAX } else { j as u64 | 1 << 60 }, &mut out);
                }
            }
            Spec::PSpace { .. } => unreachable!(),
            Spec::Files { .. } => {
                for (_, src) in crate::corpus::accepted_repo_sources() {
                    if let Some(c) = crate::gramsweep::case_from_source(&src) {
                        // real runs need usize payloads and Debug derives: drop the file's own payload types and attributes
                        let (gr, mut pres) = (c.g.clone(), c.pres.clone());
                        pres.names.retain(|k, _| !(k.starts_with('p') || k.starts_with('a')));
                        add_with(gr, pres, &mut out, &mut n);
                    }
                }
            }
            Spec::GP(sc) => {
                let rhss = all_rhs(sc.n, sc.t, sc.k);
                let mut grs = vec![];
                for unit in work_units(sc, u128::MAX) {
                    for_each_completion(sc, &rhss, &unit, &mut |gr| grs.push(gr));
                }
                for gr in grs {
                    let mut ps = vec![];
                    for_each_presentation(&gr, &mut |pres| ps.push(pres));
                    for pres in ps {
                        add_with(gr.clone(), pres, &mut out, &mut n);
                    }
                }
            }
            Spec::Scaled { deep } => {
                for (i, f) in crate::scaled::families(*deep).iter().enumerate() {
                    n += 1;
                    let case = Case::new(f.g.clone(), with_debug(crate::scaled::presentation(f, i)));
                    if let Gen::Ok(text) = generate(&case.rendered.source) {
                        out.push(RealCase { case, text, depth: f.depth });
                    }
                }
            }
            Spec::Names { extra } => {
                for nc in crate::names::relation_cases(*extra) {
                    if nc.duplicate_fields {
                        continue;
                    }
                    if let Some(c) = crate::gramsweep::case_from_source(&nc.source) {
                        let (gr, mut pres) = (c.g.clone(), c.pres.clone());
                        pres.names.retain(|k, _| !(k.starts_with('p') || k.starts_with('a')));
                        add_with(gr, pres, &mut out, &mut n);
                    }
                }
            }
        }
        scopes.push(json!({"name": spec.name(), "size": n, "accepted_modules": out.len() - before, "completed": true, "exhaustive": true, "layer": "real code (rustc-compiled parse)"}));
    }
    (out, scopes)
}

fn class_of(d: &str) -> &'static str {
    if d.starts_with("OK") {
        "OK"
    } else if d.starts_with("ERR") {
        "ERR"
    } else if d == "EOF" {
        "EOF"
    } else {
        "PANIC"
    }
}

fn case_with_word(rc: &RealCase, w: &[u8], mode: u8) -> Value {
    let mut c = rc.case.to_json();
    c["word"] = json!(w.iter().map(|t| rc.case.rendered.names.terminals[*t as usize].clone()).collect::<Vec<_>>());
    c["word_indices"] = json!(w);
    c["input_mode"] = json!(match mode { 0 => "counting iterator, payload = position", 1 => "counting iterator, constant payload", _ => "Vec, payload = position" });
    c["depth"] = json!(rc.depth);
    c
}

/// Walks the reference trie of one module and compares every real observation with the oracle of `property`.
/// Known finding D13 (C03): in a grammar with unproductive nonterminals the error is reported where the canonical
/// LR automaton stops, which can be later than the first token that no sentence extends. The class is
/// computed from the case: unproductive nonterminals exist, and the reported index lies after the literal
/// index and not after the canonical one.
pub const CLASS_LATE_UNPRODUCTIVE: &str = "late-report-with-unproductive-nonterminals";

pub fn evaluate_module(property: &str, rc: &RealCase, obs: &std::collections::HashMap<(Vec<u8>, u8), Obs>, compile_error: &Option<String>, hang: &Option<(Vec<u8>, u8)>, capped: bool, acc: &mut Acc) {
    let case = &rc.case;
    if let Some(e) = compile_error {
        // a module that does not compile is C05's finding; here it only means "not observed"
        acc.inc("modules that do not compile (C05 territory)");
        if property == "C01" {
            acc.finding(Finding::new("real_case", case_with_word(rc, &[], 0), format!("the emitted module does not compile, so parse cannot run: {e}"), json!("compiles"), json!(e)));
        }
        return;
    }
    if let Some((w, m)) = hang {
        if property == "C01" {
            let mut f = Finding::new("real_case", case_with_word(rc, w, *m), format!("the real parse does not terminate on {w:?} (no return within 300 s, or it exhausted a 3 GiB address space)"), json!("termination"), json!("no return within 300 s / memory exhausted"));
            if has_derivation_cycle(&case.g) {
                f = f.with_class(crate::pda::CLASS_CYCLE_LOOP);
            }
            acc.finding(f);
        }
        acc.inc("modules whose real parse hangs or exhausts memory");
        return;
    }
    if obs.is_empty() {
        // not run (its batch could not be completed because of other modules): not observed, not judged
        acc.inc("modules not observed");
        return;
    }
    let rf = match reference(&case.g) {
        Ok(r) => r,
        Err(e) => {
            acc.self_check_errors.push(e);
            return;
        }
    };
    // Not LR(1) although accepted (C04 reports that): no reference driver and no unique tree; membership is
    // still defined by Earley, and the error index by Earley viability when all nonterminals are productive.
    let use_ref = !rf.lr1_tables.has_conflict();
    if !use_ref {
        acc.inc("modules of grammars accepted although not LR(1): judged by Earley alone");
        if property == "C02" || (property == "C03" && !rf.all_productive) {
            return;
        }
    }
    let a = Analysis::new(&case.g);
    let reduced_grammar = reduced(&case.g);
    let reduced_analysis = if rf.all_productive { None } else { Some(Analysis::new(&reduced_grammar)) };
    acc.inc("modules run");
    // the model of the same emitted text, for binding model traces to the implementation
    let bound = match crate::gramsweep::bind(case, &rc.text) {
        Ok(b) if b.ex.driver_fingerprint == crate::pda::DRIVER_FINGERPRINT => Some(b),
        _ => {
            acc.inc("modules whose model is unbound (extractor or driver fingerprint)");
            None
        }
    };
    let model = bound.as_ref().map(|b| crate::pda::Model { case, b, start_nt: 0 });
    let mut reported = false;
    let mut late_reported = false;
    // A word below which the real runner did not descend (its run never polled the input past the end of
    // the word, so every extension has the very same outcome) passes its observations on to its extensions.
    let mut stack: Vec<(Vec<u8>, Option<std::rc::Rc<[Option<Obs>; 3]>>)> = vec![(vec![], None)];
    while let Some((w, inherited)) = stack.pop() {
        let res = if use_ref {
            drive(&case.g, &rf.lr1_tables, &w)
        } else {
            match earley_word(&a, &w) {
                Ok(true) => ParseResult::Accept(Tree::Leaf(usize::MAX)), // membership only; the tree is not compared (C02 returned above)
                Ok(false) => ParseResult::Reject(None),
                Err(i) => ParseResult::Reject(Some(i)),
            }
        };
        // reference self-checks
        match (&res, earley_word(&a, &w)) {
            _ if !use_ref => {}
            (ParseResult::Accept(tree), Ok(true)) => {
                if let Err(e) = validate_tree(&case.g, tree, &w) {
                    acc.self_check_errors.push(format!("reference self-check: the reference tree is not a derivation: {e}"));
                }
            }
            (ParseResult::Accept(_), _) | (_, Ok(true)) => acc.self_check_errors.push(format!("reference self-check: LR(1) driver and Earley disagree on {w:?} in {:?}", case.g)),
            (ParseResult::Reject(Some(i)), Err(j)) if rf.all_productive && *i != j => acc.self_check_errors.push(format!("reference self-check: LR(1) error index {i} vs Earley {j} on {w:?}")),
            (ParseResult::Reject(None), Err(_)) if rf.all_productive => acc.self_check_errors.push(format!("reference self-check: LR(1) says end of input, Earley says not viable on {w:?}")),
            (ParseResult::Reject(Some(_)), Ok(_)) if rf.all_productive => acc.self_check_errors.push(format!("reference self-check: LR(1) rejects a viable prefix {w:?}")),
            (ParseResult::Diverged, _) => {
                // canonical tables of a cyclic grammar can loop (C01's finding); there is no reference outcome for this word
                if has_derivation_cycle(&case.g) {
                    acc.inc("words on which the reference driver itself loops (derivation cycle)");
                } else {
                    acc.self_check_errors.push("reference self-check: reference driver diverged on an acyclic grammar".to_string());
                }
                continue;
            }
            _ => {}
        }
        let lookup = |mode: u8| -> Option<Obs> {
            match &inherited {
                Some(h) => h[mode as usize].clone(),
                None => obs.get(&(w.clone(), mode)).cloned(),
            }
        };
        if let (Some(m), Some(o), None) = (&model, obs.get(&(w.clone(), 0)), &inherited) {
            // model trace vs real observation (binding)
            let (step, at) = crate::pda::simulate(m, &w);
            let predicted = match step {
                crate::pda::Step::Accepted => "OK".to_string(),
                crate::pda::Step::Error if at == w.len() => "EOF".to_string(),
                crate::pda::Step::Error => format!("ERR@{at}"),
                _ => "PANIC".to_string(),
            };
            let real = match class_of(&o.desc) {
                "ERR" => format!("ERR@{}", o.desc.rsplit('(').next().unwrap_or("").trim_end_matches(')')),
                c => c.to_string(),
            };
            if predicted == real {
                acc.inc("model traces validated against the real parse");
            } else {
                acc.inc("model traces that diverge from the real parse");
                if acc.self_check_errors.len() < 3 {
                    acc.self_check_errors.push(format!("model divergence: model predicts {predicted}, real parse gives {real} on {w:?} for {}", case.rendered.source.replace('\n', " ")));
                }
            }
        }
        for mode in 0..3u8 {
            let Some(o) = lookup(mode) else {
                if capped {
                    acc.inc("words not run because the module's word budget was used up");
                    continue;
                }
                if !reported {
                    acc.self_check_errors.push(format!("missing real observation for {w:?} mode {mode} in a module without earlier mismatch"));
                    reported = true;
                }
                continue;
            };
            let o = &o;
            if inherited.is_none() {
                acc.inc("real executions compared");
            } else {
                acc.inc("extensions decided by an ancestor's run (the real parse never looked past the ancestor)");
            }
            let konst = mode == 1;
            let (want_class, want_desc): (&str, String) = match &res {
                ParseResult::Accept(tree) => ("OK", if use_ref { format!("OK {}", render_tree(case, tree, konst)) } else { String::new() }),
                ParseResult::Reject(Some(i)) => ("ERR", format!("ERR {}({})", case.rendered.names.terminals[w[*i] as usize], if konst { 0 } else { *i })),
                ParseResult::Reject(None) => ("EOF", "EOF".to_string()),
                ParseResult::Diverged => ("?", String::new()),
            };
            let got_class = class_of(&o.desc);
            let mut problem: Option<(String, Value, Value)> = None;
            match property {
                "C01" => {
                    if got_class == "PANIC" {
                        problem = Some((format!("the real parse panicked on {w:?}"), json!(want_class), json!("panic")));
                    } else if (got_class == "OK") != (want_class == "OK") {
                        problem = Some((format!("the real parse returned {} on {w:?}, which is {} the language", got_class, if want_class == "OK" { "in" } else { "not in" }), json!(want_class), json!(o.desc)));
                    }
                }
                "C02" => {
                    if want_class == "OK" && got_class == "OK" {
                        acc.inc("trees compared");
                        if o.desc != want_desc {
                            problem = Some((format!("the tree returned for {w:?} is not the derivation tree"), json!(want_desc), json!(o.desc)));
                        } else if mode == 0 {
                            if let ParseResult::Accept(tree) = &res {
                                // every input position occurs exactly once, left to right
                                let (mut used, mut skipped) = (vec![], vec![]);
                                leaf_positions(case, tree, &mut used, &mut skipped, false);
                                let mut all: Vec<usize> = used.iter().chain(skipped.iter()).copied().collect();
                                all.sort();
                                if !used.windows(2).all(|x| x[0] < x[1]) || all != (0..w.len()).collect::<Vec<_>>() {
                                    acc.self_check_errors.push("reference self-check: reference tree does not cover the input exactly once".into());
                                }
                            }
                        }
                    }
                }
                "C03" => {
                    if want_class != "OK" && got_class != "OK" && got_class != "PANIC" {
                        acc.inc("rejections compared");
                        let mut agrees = o.desc == want_desc;
                        let mut limit = match &res {
                            ParseResult::Reject(Some(i)) => i + 1,
                            _ => w.len() + 1,
                        };
                        if !agrees && got_class == "ERR" && use_ref {
                            if let Some(ra) = &reduced_analysis {
                                // Unproductive nonterminals: the statement read literally (no *sentence* extends the prefix)
                                // can name an earlier token than a canonical LR parser, which C17 demands, does (no
                                // *sentential form* extends it). Every index between the two readings is accepted.
                                let canonical = limit - 1;
                                if let Some(literal) = literal_error_index(ra, &w) {
                                    for e in (literal..=canonical.min(w.len().saturating_sub(1))).rev() {
                                        if e < w.len() && o.desc == format!("ERR {}({})", case.rendered.names.terminals[w[e] as usize], if konst { 0 } else { e }) {
                                            agrees = true;
                                            limit = e + 1;
                                            acc.inc("rejections before the LR(1) reference stops, at a prefix that no sentence extends (unproductive nonterminals; allowed by the statement)");
                                            break;
                                        }
                                    }
                                }
                            }
                        }
                        if agrees {
                            if let Some(lit) = reduced_analysis.as_ref().and_then(|ra| literal_error_index(ra, &w)) {
                                // (limit - 1 = index of the reported token, or the length of the word for Err(None))
                                if limit - 1 > lit {
                                    acc.inc("rejections reported later than the first token that no sentence extends (known finding D13, grammars with unproductive nonterminals)");
                                    if !late_reported {
                                        late_reported = true;
                                        acc.finding(
                                            Finding::new(
                                                "real_case",
                                                case_with_word(rc, &w, mode),
                                                format!("rejection of {w:?} reports {} although already token {lit} cannot be extended to any sentence (a nonterminal of the grammar derives no terminal string; a canonical LR parser stops only where no sentential form continues)", o.desc),
                                                json!(format!("Err(Some(token {lit}))")),
                                                json!(o.desc),
                                            )
                                            .with_class(CLASS_LATE_UNPRODUCTIVE),
                                        );
                                    }
                                }
                            }
                        }
                        if !agrees {
                            problem = Some((format!("rejection of {w:?} reports {} instead of {}", o.desc, want_desc), json!(want_desc), json!(o.desc)));
                        } else if mode < 2 {
                            if o.count > limit {
                                problem = Some((format!("rejecting {w:?} pulled {} items from the input iterator, the reported token is item {}", o.count, limit), json!(format!("at most {limit} calls to next()")), json!(o.count)));
                            }
                            acc.max("max next() calls beyond the reported token", o.count.saturating_sub(limit) as u64);
                            if o.polled_after_end {
                                acc.inc("runs that polled the iterator again after it returned None");
                            }
                        }
                    }
                }
                _ => {}
            }
            if let Some((what, expected, observed)) = problem {
                if !reported {
                    reported = true;
                    acc.finding(Finding::new("real_case", case_with_word(rc, &w, mode), what, expected, observed));
                }
            }
        }
        let extend = !matches!(res, ParseResult::Reject(Some(_))) && w.len() < rc.depth;
        if extend {
            // did the real runner descend below this word?
            let pass_on = match &inherited {
                Some(h) => Some(h.clone()),
                None => match obs.get(&(w.clone(), 0)) {
                    Some(o0) if o0.count <= w.len() => Some(std::rc::Rc::new([lookup(0), lookup(1), lookup(2)])),
                    _ => None,
                },
            };
            for a in (0..case.g.t as u8).rev() {
                let mut x = w.clone();
                x.push(a);
                stack.push((x, pass_on.clone()));
            }
        }
    }
}

pub fn to_modules(cases: &[RealCase]) -> Vec<RealModule> {
    cases
        .iter()
        .map(|rc| RealModule { text: rc.text.clone(), terminal_enum: rc.case.rendered.names.terminal_enum.clone(), terminals: rc.case.rendered.names.terminals.clone(), depth: rc.depth })
        .collect()
}

pub struct RealLayer {
    pub acc: Acc,
    pub scopes: Vec<Value>,
    pub modules: usize,
    pub results_runs: u64,
    pub compile_s: f64,
    pub run_s: f64,
}

pub fn run_layer(property: &str, specs: &[Spec], deep: bool, extra_presentations: u64) -> RealLayer {
    let (cases, scopes) = collect(specs, deep, extra_presentations);
    let mods = to_modules(&cases);
    let res: RealResults = run_real(&mods, property);
    let mut acc = Acc::default();
    for (i, rc) in cases.iter().enumerate() {
        let mut a = Acc::default();
        evaluate_module(property, rc, &res.obs[i], &res.compile_errors[i], &res.hangs[i], res.capped[i], &mut a);
        if i % 997 == 0 {
            if let Some((k, o)) = res.obs[i].iter().filter(|(k, _)| k.1 == 0).max_by_key(|(k, _)| k.0.len()) {
                a.samples.push(json!({"layer": "real", "source": rc.case.rendered.source, "word": k.0, "observed": o.desc, "next_calls": o.count}));
            }
        }
        acc.merge(a);
    }
    RealLayer { acc, scopes, modules: cases.len(), results_runs: res.runs, compile_s: res.compile_s, run_s: res.run_s }
}

/// Replays one real-code case: regenerates, recompiles the single module and re-evaluates the oracle.
pub fn replay(property: &str, case: &Value) -> Option<Vec<Finding>> {
    let c = Case::from_json(case)?;
    let depth = case["depth"].as_u64().unwrap_or(6) as usize;
    let Gen::Ok(text) = generate(&c.rendered.source) else { return Some(vec![]) };
    let rc = RealCase { case: c, text, depth };
    let mods = to_modules(std::slice::from_ref(&rc));
    let res = run_real(&mods, "replay");
    let mut acc = Acc::default();
    evaluate_module(property, &rc, &res.obs[0], &res.compile_errors[0], &res.hangs[0], res.capped[0], &mut acc);
    Some(acc.findings)
}
