//! R-gram: boring reference models for context-free grammars, independent of kiki's code.
//!
//! * nullable / FIRST / FOLLOW / productive / reachable
//! * canonical LR(1) item-set construction (textbook)
//! * LALR(1) by merging canonical LR(1) states with equal cores (the definition)
//! * a second, independent LALR(1): LR(0) kernels + spontaneous/propagated lookaheads to a fixpoint
//! * SLR(1) conflict test (for the class histogram)
//! * action/goto tables with conflict listing, a shift/reduce driver producing derivation trees
//! * an incremental Earley recogniser (membership and prefix viability along an input trie)
//! * a derivation checker validating trees against the grammar and the input

use std::collections::{BTreeMap, BTreeSet, HashMap};

#[derive(Clone, Copy, PartialEq, Eq, Hash, PartialOrd, Ord, Debug)]
pub enum Sym {
    N(u8),
    T(u8),
}

/// Nonterminals `0..n` (0 is the start symbol), terminals `0..t`, productions in reference order.
#[derive(Clone, Debug, PartialEq, Eq, Hash, PartialOrd, Ord)]
pub struct Grammar {
    pub n: usize,
    pub t: usize,
    pub prods: Vec<(u8, Vec<Sym>)>,
}

pub const AUG: u16 = u16::MAX;

/// LR(1) item packed as prod(16) | dot(16) | lookahead(8); lookahead `t` is end of input.
/// (16 bits for the dot: right-hand sides of more than 255 symbols are part of the scaled families.)
pub type Item = u64;
#[inline]
pub fn item(prod: u16, dot: u16, la: u8) -> Item {
    ((prod as u64) << 24) | ((dot as u64) << 8) | la as u64
}
#[inline]
pub fn item_prod(i: Item) -> u16 {
    (i >> 24) as u16
}
#[inline]
pub fn item_dot(i: Item) -> u16 {
    (i >> 8) as u16
}
#[inline]
pub fn item_la(i: Item) -> u8 {
    i as u8
}
#[inline]
pub fn item_core(i: Item) -> u32 {
    (i >> 8) as u32
}

pub struct Analysis<'g> {
    pub g: &'g Grammar,
    pub nullable: Vec<bool>,
    /// FIRST sets as bitsets over terminals
    pub first: Vec<u64>,
    pub by_lhs: Vec<Vec<u16>>,
    pub productive: Vec<bool>,
    pub reachable: Vec<bool>,
    aug_rhs: [Sym; 1],
}

impl<'g> Analysis<'g> {
    pub fn new(g: &'g Grammar) -> Analysis<'g> {
        assert!(g.t <= 63 && g.n <= 250 && g.prods.len() < AUG as usize);
        let mut nullable = vec![false; g.n];
        let mut first = vec![0u64; g.n];
        let mut productive = vec![false; g.n];
        let mut by_lhs = vec![vec![]; g.n];
        for (k, (l, _)) in g.prods.iter().enumerate() {
            by_lhs[*l as usize].push(k as u16);
        }
        loop {
            let mut changed = false;
            for (l, rhs) in &g.prods {
                let l = *l as usize;
                let mut all_nullable = true;
                let mut f = first[l];
                for s in rhs {
                    match s {
                        Sym::T(t) => {
                            f |= 1 << t;
                            all_nullable = false;
                            break;
                        }
                        Sym::N(b) => {
                            f |= first[*b as usize];
                            if !nullable[*b as usize] {
                                all_nullable = false;
                                break;
                            }
                        }
                    }
                }
                if f != first[l] {
                    first[l] = f;
                    changed = true;
                }
                if all_nullable && !nullable[l] {
                    nullable[l] = true;
                    changed = true;
                }
                if !productive[l] && rhs.iter().all(|s| matches!(s, Sym::T(_)) || matches!(s, Sym::N(b) if productive[*b as usize])) {
                    productive[l] = true;
                    changed = true;
                }
            }
            if !changed {
                break;
            }
        }
        let mut reachable = vec![false; g.n];
        if g.n > 0 {
            reachable[0] = true;
            let mut work = vec![0usize];
            while let Some(a) = work.pop() {
                for &p in &by_lhs[a] {
                    for s in &g.prods[p as usize].1 {
                        if let Sym::N(b) = s {
                            if !reachable[*b as usize] {
                                reachable[*b as usize] = true;
                                work.push(*b as usize);
                            }
                        }
                    }
                }
            }
        }
        Analysis { g, nullable, first, by_lhs, productive, reachable, aug_rhs: [Sym::N(0)] }
    }

    #[inline]
    pub fn rhs(&self, prod: u16) -> &[Sym] {
        if prod == AUG {
            &self.aug_rhs
        } else {
            &self.g.prods[prod as usize].1
        }
    }

    pub fn all_productive(&self) -> bool {
        self.productive.iter().all(|b| *b)
    }

    /// FIRST(seq · la) as a bitset over terminals plus bit `t` for end of input.
    pub fn first_of_seq(&self, seq: &[Sym], la: u8) -> u64 {
        let mut out = 0u64;
        for s in seq {
            match s {
                Sym::T(t) => return out | (1 << t),
                Sym::N(b) => {
                    out |= self.first[*b as usize];
                    if !self.nullable[*b as usize] {
                        return out;
                    }
                }
            }
        }
        out | (1 << la)
    }

    pub fn closure(&self, kernel: &[Item]) -> Vec<Item> {
        let mut set: BTreeSet<Item> = kernel.iter().copied().collect();
        let mut work: Vec<Item> = kernel.to_vec();
        while let Some(it) = work.pop() {
            let rhs = self.rhs(item_prod(it));
            let d = item_dot(it) as usize;
            if d < rhs.len() {
                if let Sym::N(b) = rhs[d] {
                    let las = self.first_of_seq(&rhs[d + 1..], item_la(it));
                    for &q in &self.by_lhs[b as usize] {
                        let mut bits = las;
                        while bits != 0 {
                            let la = bits.trailing_zeros() as u8;
                            bits &= bits - 1;
                            let ni = item(q, 0, la);
                            if set.insert(ni) {
                                work.push(ni);
                            }
                        }
                    }
                }
            }
        }
        set.into_iter().collect()
    }

    pub fn follow(&self) -> Vec<u64> {
        let t = self.g.t as u8;
        let mut follow = vec![0u64; self.g.n];
        if self.g.n > 0 {
            follow[0] |= 1 << t;
        }
        loop {
            let mut changed = false;
            for (l, rhs) in &self.g.prods {
                for (i, s) in rhs.iter().enumerate() {
                    if let Sym::N(b) = s {
                        // FIRST(rest) with "la" standing for FOLLOW(l)
                        let mut f = 0u64;
                        let mut through = true;
                        for r in &rhs[i + 1..] {
                            match r {
                                Sym::T(x) => {
                                    f |= 1 << x;
                                    through = false;
                                    break;
                                }
                                Sym::N(c) => {
                                    f |= self.first[*c as usize];
                                    if !self.nullable[*c as usize] {
                                        through = false;
                                        break;
                                    }
                                }
                            }
                        }
                        if through {
                            f |= follow[*l as usize];
                        }
                        if follow[*b as usize] | f != follow[*b as usize] {
                            follow[*b as usize] |= f;
                            changed = true;
                        }
                    }
                }
            }
            if !changed {
                return follow;
            }
        }
    }
}

/// A derivation cycle A =>+ A exists (through unit steps: A -> alpha B beta with alpha and beta nullable).
pub fn has_derivation_cycle(g: &Grammar) -> bool {
    let a = Analysis::new(g);
    let mut edge = vec![vec![false; g.n]; g.n];
    for (l, rhs) in &g.prods {
        for (i, s) in rhs.iter().enumerate() {
            if let Sym::N(b) = s {
                let others_nullable = rhs.iter().enumerate().all(|(j, x)| j == i || matches!(x, Sym::N(c) if a.nullable[*c as usize]));
                if others_nullable {
                    edge[*l as usize][*b as usize] = true;
                }
            }
        }
    }
    // transitive closure
    for k in 0..g.n {
        for i in 0..g.n {
            for j in 0..g.n {
                if edge[i][k] && edge[k][j] {
                    edge[i][j] = true;
                }
            }
        }
    }
    (0..g.n).any(|i| edge[i][i])
}

/// An LR automaton: item sets with lookaheads and a deterministic transition function.
#[derive(Clone, Debug)]
pub struct Automaton {
    pub states: Vec<Vec<Item>>,
    pub trans: Vec<BTreeMap<Sym, usize>>,
    pub start: usize,
}

pub fn canonical_lr1(a: &Analysis) -> Automaton {
    let t = a.g.t as u8;
    let start = a.closure(&[item(AUG, 0, t)]);
    let mut index: HashMap<Vec<Item>, usize> = HashMap::new();
    index.insert(start.clone(), 0);
    let mut states = vec![start];
    let mut trans: Vec<BTreeMap<Sym, usize>> = vec![BTreeMap::new()];
    let mut i = 0;
    while i < states.len() {
        let mut by_sym: BTreeMap<Sym, Vec<Item>> = BTreeMap::new();
        for &it in &states[i] {
            let rhs = a.rhs(item_prod(it));
            let d = item_dot(it) as usize;
            if d < rhs.len() {
                by_sym.entry(rhs[d]).or_default().push(item(item_prod(it), item_dot(it) + 1, item_la(it)));
            }
        }
        for (sym, kernel) in by_sym {
            let tgt = a.closure(&kernel);
            let j = match index.get(&tgt) {
                Some(j) => *j,
                None => {
                    let j = states.len();
                    index.insert(tgt.clone(), j);
                    states.push(tgt);
                    trans.push(BTreeMap::new());
                    j
                }
            };
            trans[i].insert(sym, j);
        }
        i += 1;
    }
    Automaton { states, trans, start: 0 }
}

pub fn core_of(state: &[Item]) -> Vec<u32> {
    let mut c: Vec<u32> = state.iter().map(|i| item_core(*i)).collect();
    c.dedup();
    c
}

/// LALR(1) automaton by definition: merge the canonical LR(1) states that have equal cores.
pub fn lalr_by_merge(lr1: &Automaton) -> Automaton {
    let mut index: HashMap<Vec<u32>, usize> = HashMap::new();
    let mut map = Vec::with_capacity(lr1.states.len());
    let mut merged: Vec<BTreeSet<Item>> = vec![];
    for st in &lr1.states {
        let c = core_of(st);
        let k = *index.entry(c).or_insert_with(|| {
            merged.push(BTreeSet::new());
            merged.len() - 1
        });
        merged[k].extend(st.iter().copied());
        map.push(k);
    }
    let mut trans: Vec<BTreeMap<Sym, usize>> = vec![BTreeMap::new(); merged.len()];
    for (s, tr) in lr1.trans.iter().enumerate() {
        for (sym, t) in tr {
            let prev = trans[map[s]].insert(*sym, map[*t]);
            assert!(prev.is_none() || prev == Some(map[*t]), "merging LR(1) states by core must keep transitions deterministic");
        }
    }
    Automaton { states: merged.into_iter().map(|s| s.into_iter().collect()).collect(), trans, start: map[lr1.start] }
}

/// LR(0) automaton over item cores (prod<<8 | dot), full (closed) item sets.
pub struct Lr0 {
    pub states: Vec<Vec<u32>>,
    pub kernels: Vec<Vec<u32>>,
    pub trans: Vec<BTreeMap<Sym, usize>>,
}

fn core(prod: u16, dot: u16) -> u32 {
    ((prod as u32) << 16) | dot as u32
}
fn core_prod(c: u32) -> u16 {
    (c >> 16) as u16
}
fn core_dot(c: u32) -> u16 {
    c as u16
}

pub fn lr0(a: &Analysis) -> Lr0 {
    let closure0 = |kernel: &[u32]| -> Vec<u32> {
        let mut set: BTreeSet<u32> = kernel.iter().copied().collect();
        let mut work = kernel.to_vec();
        while let Some(c) = work.pop() {
            let rhs = a.rhs(core_prod(c));
            let d = core_dot(c) as usize;
            if d < rhs.len() {
                if let Sym::N(b) = rhs[d] {
                    for &q in &a.by_lhs[b as usize] {
                        let nc = core(q, 0);
                        if set.insert(nc) {
                            work.push(nc);
                        }
                    }
                }
            }
        }
        set.into_iter().collect()
    };
    let k0 = vec![core(AUG, 0)];
    let mut index: HashMap<Vec<u32>, usize> = HashMap::new();
    index.insert(k0.clone(), 0);
    let mut kernels = vec![k0.clone()];
    let mut states = vec![closure0(&k0)];
    let mut trans = vec![BTreeMap::new()];
    let mut i = 0;
    while i < states.len() {
        let mut by_sym: BTreeMap<Sym, Vec<u32>> = BTreeMap::new();
        for &c in &states[i] {
            let rhs = a.rhs(core_prod(c));
            let d = core_dot(c) as usize;
            if d < rhs.len() {
                by_sym.entry(rhs[d]).or_default().push(core(core_prod(c), core_dot(c) + 1));
            }
        }
        for (sym, mut kernel) in by_sym {
            kernel.sort();
            kernel.dedup();
            let j = match index.get(&kernel) {
                Some(j) => *j,
                None => {
                    let j = states.len();
                    index.insert(kernel.clone(), j);
                    states.push(closure0(&kernel));
                    kernels.push(kernel);
                    trans.push(BTreeMap::new());
                    j
                }
            };
            trans[i].insert(sym, j);
        }
        i += 1;
    }
    Lr0 { states, kernels, trans }
}

/// Second LALR(1) computation (dragon book 4.7.5): LR(0) kernels, lookaheads generated
/// spontaneously or propagated, iterated to a fixpoint; then closed per state.
pub fn lalr_by_propagation(a: &Analysis, l0: &Lr0) -> Automaton {
    let t = a.g.t as u8;
    let dummy: u8 = 63; // a lookahead that is no terminal and not end of input
    assert!(t < dummy);
    let n = l0.states.len();
    // lookahead bitsets per (state, kernel core)
    let mut la: Vec<BTreeMap<u32, u64>> = l0.kernels.iter().map(|k| k.iter().map(|c| (*c, 0u64)).collect()).collect();
    *la[0].get_mut(&core(AUG, 0)).unwrap() |= 1 << t;
    let mut propagate: Vec<((usize, u32), (usize, u32))> = vec![];
    for s in 0..n {
        for &k in &l0.kernels[s] {
            let cl = a.closure(&[item(core_prod(k), core_dot(k), dummy)]);
            for it in cl {
                let rhs = a.rhs(item_prod(it));
                let d = item_dot(it) as usize;
                if d < rhs.len() {
                    let tgt = l0.trans[s][&rhs[d]];
                    let tc = core(item_prod(it), item_dot(it) + 1);
                    if item_la(it) == dummy {
                        propagate.push(((s, k), (tgt, tc)));
                    } else {
                        *la[tgt].get_mut(&tc).unwrap() |= 1 << item_la(it);
                    }
                }
            }
        }
    }
    loop {
        let mut changed = false;
        for ((s, k), (s2, k2)) in &propagate {
            let src = la[*s][k];
            let dst = la[*s2].get_mut(k2).unwrap();
            if *dst | src != *dst {
                *dst |= src;
                changed = true;
            }
        }
        if !changed {
            break;
        }
    }
    let mut states = vec![];
    for s in 0..n {
        let mut kernel_items = vec![];
        for (c, bits) in &la[s] {
            let mut b = *bits;
            while b != 0 {
                let l = b.trailing_zeros() as u8;
                b &= b - 1;
                kernel_items.push(item(core_prod(*c), core_dot(*c), l));
            }
        }
        states.push(a.closure(&kernel_items));
    }
    Automaton { states, trans: l0.trans.clone(), start: 0 }
}

#[derive(Clone, Copy, Debug, PartialEq, Eq, Hash, PartialOrd, Ord)]
pub enum Act {
    Shift(usize),
    Reduce(u16),
    Accept,
}

/// The action an item demands, and on which column (terminal index, or `t` for end of input).
pub fn demanded(a: &Analysis, aut: &Automaton, state: usize, it: Item) -> Option<(u8, Act)> {
    let rhs = a.rhs(item_prod(it));
    let d = item_dot(it) as usize;
    if d == rhs.len() {
        Some((item_la(it), if item_prod(it) == AUG { Act::Accept } else { Act::Reduce(item_prod(it)) }))
    } else if let Sym::T(x) = rhs[d] {
        Some((x, Act::Shift(aut.trans[state][&rhs[d]])))
    } else {
        None
    }
}

#[derive(Clone, Debug)]
pub struct Tables {
    /// action[state][column] = set of demanded actions (more than one = conflict); column t = end of input
    pub action: Vec<Vec<Vec<Act>>>,
    pub goto: Vec<Vec<Option<usize>>>,
    pub start: usize,
}

impl Tables {
    pub fn has_conflict(&self) -> bool {
        self.action.iter().any(|row| row.iter().any(|c| c.len() > 1))
    }
    pub fn conflict_states(&self) -> usize {
        self.action.iter().filter(|row| row.iter().any(|c| c.len() > 1)).count()
    }
}

pub fn tables(a: &Analysis, aut: &Automaton) -> Tables {
    let t = a.g.t;
    let mut action = vec![vec![Vec::<Act>::new(); t + 1]; aut.states.len()];
    let mut goto = vec![vec![None; a.g.n]; aut.states.len()];
    for (s, st) in aut.states.iter().enumerate() {
        for &it in st {
            if let Some((col, act)) = demanded(a, aut, s, it) {
                let cell = &mut action[s][col as usize];
                if !cell.contains(&act) {
                    cell.push(act);
                }
            }
        }
        for (sym, tgt) in &aut.trans[s] {
            if let Sym::N(b) = sym {
                goto[s][*b as usize] = Some(*tgt);
            }
        }
    }
    Tables { action, goto, start: aut.start }
}

/// SLR(1): LR(0) automaton with FOLLOW-set reductions; true if conflict-free.
pub fn is_slr1(a: &Analysis, l0: &Lr0) -> bool {
    let follow = a.follow();
    let t = a.g.t;
    for (s, st) in l0.states.iter().enumerate() {
        let mut cells: Vec<Vec<Act>> = vec![vec![]; t + 1];
        for &c in st {
            let rhs = a.rhs(core_prod(c));
            let d = core_dot(c) as usize;
            if d == rhs.len() {
                if core_prod(c) == AUG {
                    if !cells[t].contains(&Act::Accept) {
                        cells[t].push(Act::Accept);
                    }
                } else {
                    let l = a.g.prods[core_prod(c) as usize].0 as usize;
                    let mut b = follow[l];
                    while b != 0 {
                        let x = b.trailing_zeros() as usize;
                        b &= b - 1;
                        let act = Act::Reduce(core_prod(c));
                        if !cells[x].contains(&act) {
                            cells[x].push(act);
                        }
                    }
                }
            } else if let Sym::T(x) = rhs[d] {
                let act = Act::Shift(l0.trans[s][&rhs[d]]);
                if !cells[x as usize].contains(&act) {
                    cells[x as usize].push(act);
                }
            }
        }
        if cells.iter().any(|c| c.len() > 1) {
            return false;
        }
    }
    true
}

#[derive(Clone, Debug, PartialEq, Eq)]
pub enum Tree {
    /// terminal at input position
    Leaf(usize),
    Node(u16, Vec<Tree>),
}

#[derive(Clone, Debug, PartialEq, Eq)]
pub enum ParseResult {
    Accept(Tree),
    /// Rejected while the lookahead was the token at this index (`None` = end of input).
    Reject(Option<usize>),
    /// The driver did not terminate within the step horizon.
    Diverged,
}

/// Textbook shift/reduce driver over conflict-free tables.
pub fn drive(g: &Grammar, tb: &Tables, word: &[u8]) -> ParseResult {
    let mut states = vec![tb.start];
    let mut nodes: Vec<Tree> = vec![];
    let mut i = 0usize;
    let mut steps = 0usize;
    loop {
        steps += 1;
        if steps > 100_000 {
            return ParseResult::Diverged;
        }
        let col = if i < word.len() { word[i] as usize } else { g.t };
        let cell = &tb.action[*states.last().unwrap()][col];
        match cell.first() {
            None => return ParseResult::Reject(if i < word.len() { Some(i) } else { None }),
            Some(Act::Shift(s)) => {
                states.push(*s);
                nodes.push(Tree::Leaf(i));
                i += 1;
            }
            Some(Act::Reduce(p)) => {
                let (l, rhs) = &g.prods[*p as usize];
                let k = rhs.len();
                let kids = nodes.split_off(nodes.len() - k);
                states.truncate(states.len() - k);
                nodes.push(Tree::Node(*p, kids));
                match tb.goto[*states.last().unwrap()][*l as usize] {
                    Some(s) => states.push(s),
                    None => return ParseResult::Reject(if i < word.len() { Some(i) } else { None }),
                }
            }
            Some(Act::Accept) => return ParseResult::Accept(nodes.pop().unwrap()),
        }
    }
}

/// Independent derivation checker: `tree` derives `word` from nonterminal `nt`, covering positions
/// `from..` in order; returns the position after the last leaf.
pub fn check_derivation(g: &Grammar, tree: &Tree, nt: u8, word: &[u8], from: usize) -> Result<usize, String> {
    match tree {
        Tree::Leaf(_) => Err("a leaf where a nonterminal node was expected".into()),
        Tree::Node(p, kids) => {
            let (l, rhs) = g.prods.get(*p as usize).ok_or("production index out of range")?;
            if *l != nt {
                return Err(format!("node uses production {p} of nonterminal {l}, expected nonterminal {nt}"));
            }
            if rhs.len() != kids.len() {
                return Err(format!("production {p} has {} symbols, node has {} children", rhs.len(), kids.len()));
            }
            let mut pos = from;
            for (s, k) in rhs.iter().zip(kids) {
                match (s, k) {
                    (Sym::T(x), Tree::Leaf(i)) => {
                        if *i != pos || word.get(pos) != Some(x) {
                            return Err(format!("leaf {i} does not match terminal {x} at position {pos}"));
                        }
                        pos += 1;
                    }
                    (Sym::N(b), sub @ Tree::Node(..)) => pos = check_derivation(g, sub, *b, word, pos)?,
                    _ => return Err("child kind does not match the production".into()),
                }
            }
            Ok(pos)
        }
    }
}

pub fn validate_tree(g: &Grammar, tree: &Tree, word: &[u8]) -> Result<(), String> {
    let end = check_derivation(g, tree, 0, word, 0)?;
    if end != word.len() {
        return Err(format!("tree covers {end} of {} tokens", word.len()));
    }
    Ok(())
}

// ---------------------------------------------------------------------------------------------
// Earley recogniser, incremental along an input trie.

/// Earley item: prod(16) | dot(16) | origin(16)
type EItem = u64;
fn eitem(prod: u16, dot: u16, origin: u16) -> EItem {
    ((prod as u64) << 32) | ((dot as u64) << 16) | origin as u64
}

fn ep(it: EItem) -> u16 {
    (it >> 32) as u16
}
fn ed(it: EItem) -> usize {
    ((it >> 16) & 0xffff) as usize
}
fn eo(it: EItem) -> usize {
    (it & 0xffff) as usize
}

pub struct Earley<'a> {
    a: &'a Analysis<'a>,
    sets: Vec<Vec<EItem>>,
}

impl<'a> Earley<'a> {
    pub fn new(a: &'a Analysis<'a>) -> Earley<'a> {
        let mut e = Earley { a, sets: vec![] };
        let s0 = e.complete_set(vec![eitem(AUG, 0, 0)], 0);
        e.sets.push(s0);
        e
    }

    pub fn depth(&self) -> usize {
        self.sets.len() - 1
    }

    fn complete_set(&self, seed: Vec<EItem>, k: usize) -> Vec<EItem> {
        let mut set: BTreeSet<EItem> = seed.iter().copied().collect();
        let mut work = seed;
        while let Some(it) = work.pop() {
            let p = ep(it);
            let d = ed(it);
            let o = eo(it);
            let rhs = self.a.rhs(p);
            if d < rhs.len() {
                if let Sym::N(b) = rhs[d] {
                    for &q in &self.a.by_lhs[b as usize] {
                        let ni = eitem(q, 0, k as u16);
                        if set.insert(ni) {
                            work.push(ni);
                        }
                    }
                    if self.a.nullable[b as usize] {
                        let ni = eitem(p, d as u16 + 1, o as u16);
                        if set.insert(ni) {
                            work.push(ni);
                        }
                    }
                }
            } else if p != AUG {
                let lhs = self.a.g.prods[p as usize].0;
                // completer: parents live in set `o` (which is the set under construction when o == k)
                let parents: Vec<EItem> = if o == k { set.iter().copied().collect() } else { self.sets[o].clone() };
                for par in parents {
                    let pp = ep(par);
                    let pd = ed(par);
                    let prhs = self.a.rhs(pp);
                    if pd < prhs.len() && prhs[pd] == Sym::N(lhs) {
                        let ni = eitem(pp, pd as u16 + 1, eo(par) as u16);
                        if set.insert(ni) {
                            work.push(ni);
                        }
                    }
                }
            }
        }
        set.into_iter().collect()
    }

    /// Scans one token. Returns false (and leaves the recogniser unchanged) if no item survives,
    /// i.e. the extended prefix is not a prefix of any sentential expansion.
    pub fn push(&mut self, tok: u8) -> bool {
        let k = self.sets.len() - 1;
        let mut seed = vec![];
        for &it in &self.sets[k] {
            let p = ep(it);
            let d = ed(it);
            let rhs = self.a.rhs(p);
            if d < rhs.len() && rhs[d] == Sym::T(tok) {
                seed.push(eitem(p, d as u16 + 1, eo(it) as u16));
            }
        }
        if seed.is_empty() {
            return false;
        }
        let s = self.complete_set(seed, k + 1);
        self.sets.push(s);
        true
    }

    pub fn pop(&mut self) {
        assert!(self.sets.len() > 1);
        self.sets.pop();
    }

    /// The tokens pushed so far form a sentence.
    pub fn accepts(&self) -> bool {
        self.sets.last().unwrap().contains(&eitem(AUG, 1, 0))
    }
}

/// Membership and the smallest index at which the prefix stops being viable (Earley).
/// `Ok(accepted)` if every prefix is viable; `Err(i)` if `word[..=i]` is the first non-viable prefix.
/// (Viability in the Earley sense equals extendability to a sentence iff all nonterminals are productive.)
pub fn earley_word(a: &Analysis, word: &[u8]) -> Result<bool, usize> {
    let mut e = Earley::new(a);
    for (i, t) in word.iter().enumerate() {
        if !e.push(*t) {
            return Err(i);
        }
    }
    Ok(e.accepts())
}

/// The grammar without the productions that mention an unproductive nonterminal (on either side): it has
/// the same sentences, and in it every prefix that survives Earley's scanner can be extended to a sentence.
pub fn reduced(g: &Grammar) -> Grammar {
    let a = Analysis::new(g);
    let ok = |s: &Sym| match s {
        Sym::N(x) => a.productive[*x as usize],
        Sym::T(_) => true,
    };
    Grammar { n: g.n, t: g.t, prods: g.prods.iter().filter(|(l, rhs)| a.productive[*l as usize] && rhs.iter().all(ok)).cloned().collect() }
}

/// The statement of C03 read literally: the smallest index i such that word[0..=i] cannot be extended to
/// any sentence; None if the whole word can (it is a sentence or a proper prefix of one).
/// `reduced_analysis` must be the analysis of `reduced(g)`.
pub fn literal_error_index(reduced_analysis: &Analysis, word: &[u8]) -> Option<usize> {
    match earley_word(reduced_analysis, word) {
        Err(i) => Some(i),
        Ok(_) => None,
    }
}

// ---------------------------------------------------------------------------------------------

#[derive(Clone, Copy, Debug, PartialEq, Eq, Hash, PartialOrd, Ord)]
pub enum Class {
    Slr1,
    Lalr1NotSlr,
    Lr1NotLalr,
    NotLr1,
}

impl Class {
    pub fn name(self) -> &'static str {
        match self {
            Class::Slr1 => "SLR(1)",
            Class::Lalr1NotSlr => "LALR(1) not SLR(1)",
            Class::Lr1NotLalr => "LR(1) not LALR(1)",
            Class::NotLr1 => "not LR(1)",
        }
    }
}

pub struct Reference {
    pub lr1: Automaton,
    pub lr1_tables: Tables,
    pub lalr: Automaton,
    pub lalr_tables: Tables,
    pub class: Class,
    pub all_productive: bool,
    pub has_epsilon: bool,
    pub all_reachable: bool,
}

/// Builds all reference automata of a grammar and runs the reference self-checks.
/// `Err` is a machinery error (the references disagree among themselves), never a verdict.
pub fn reference(g: &Grammar) -> Result<Reference, String> {
    let a = Analysis::new(g);
    let lr1 = canonical_lr1(&a);
    let lr1_tables = tables(&a, &lr1);
    let lalr = lalr_by_merge(&lr1);
    let lalr_tables = tables(&a, &lalr);
    let l0 = lr0(&a);
    let slr = is_slr1(&a, &l0);
    let lr1_ok = !lr1_tables.has_conflict();
    let lalr_ok = !lalr_tables.has_conflict();
    if lalr_ok && !lr1_ok {
        return Err(format!("reference self-check: LALR(1) conflict-free but canonical LR(1) conflicts: {g:?}"));
    }
    if a.all_productive() {
        // "one state per reachable LR(0) core" and the propagated lookaheads must coincide with the merge.
        let prop = lalr_by_propagation(&a, &l0);
        if prop.states.len() != lalr.states.len() {
            return Err(format!("reference self-check: {} LR(0) states vs {} merged LR(1) states: {g:?}", prop.states.len(), lalr.states.len()));
        }
        let a_set: BTreeSet<&Vec<Item>> = prop.states.iter().collect();
        let b_set: BTreeSet<&Vec<Item>> = lalr.states.iter().collect();
        if a_set != b_set {
            return Err(format!("reference self-check: LALR by propagation and LALR by merge differ: {g:?}"));
        }
        if slr && !lalr_ok {
            return Err(format!("reference self-check: SLR(1) but not LALR(1): {g:?}"));
        }
    }
    let class = if lalr_ok {
        if slr && a.all_productive() {
            Class::Slr1
        } else if slr {
            Class::Slr1
        } else {
            Class::Lalr1NotSlr
        }
    } else if lr1_ok {
        Class::Lr1NotLalr
    } else {
        Class::NotLr1
    };
    Ok(Reference {
        all_productive: a.all_productive(),
        has_epsilon: g.prods.iter().any(|p| p.1.is_empty()),
        all_reachable: a.reachable.iter().all(|b| *b),
        lr1,
        lr1_tables,
        lalr,
        lalr_tables,
        class,
    })
}

pub fn render_item(g: &Grammar, it: Item) -> String {
    let p = item_prod(it);
    let (lhs, rhs): (String, Vec<Sym>) = if p == AUG { ("S'".into(), vec![Sym::N(0)]) } else { (format!("N{}", g.prods[p as usize].0), g.prods[p as usize].1.clone()) };
    let mut s = format!("{lhs} ->");
    for (i, x) in rhs.iter().enumerate() {
        if i == item_dot(it) as usize {
            s += " .";
        }
        match x {
            Sym::N(b) => s += &format!(" N{b}"),
            Sym::T(b) => s += &format!(" t{b}"),
        }
    }
    if item_dot(it) as usize == rhs.len() {
        s += " .";
    }
    let la = item_la(it);
    s + &format!(" , {}", if la as usize == g.t { "$".to_string() } else { format!("t{la}") })
}
