//! C15 — the emitted header carries the source hash; get_grammar_hash reads it back.
//! (a) all texts of at most n lines over a line alphabet x line terminators vs a small reference of the
//! stated rule; (b) round trip on accepted sources with R-sha256; (c) freshness over the corpus.

use crate::common::*;
use crate::gramsweep::{generate, Acc, Case, Gen};
use crate::scopes::*;
use rayon::prelude::*;
use serde_json::{json, Value};
use std::collections::BTreeMap;

const PREFIX: &str = "// @sha256 ";

/// The stated rule: the remainder of the first line starting with `// @sha256 ` inside the leading
/// block of `//` lines; lines end at LF or CRLF.
pub fn reference_hash(text: &str) -> Option<&str> {
    let mut rest = text;
    while !rest.is_empty() {
        // a line ends at LF or CRLF; a bare CR (also at the very end of the text) is ordinary content
        let (line, next) = match rest.find('\n') {
            Some(i) => (rest[..i].strip_suffix('\r').unwrap_or(&rest[..i]), &rest[i + 1..]),
            None => (rest, ""),
        };
        if !line.starts_with("//") {
            return None;
        }
        if let Some(r) = line.strip_prefix(PREFIX) {
            return Some(r);
        }
        rest = next;
    }
    None
}

const LINES: [&str; 19] = [
    "// @sha256 X  ",
    "\t// @sha256 X",
    "// @sha256 X // @sha256 Y",
    "// @sha256 X",
    "// @sha256 ",
    "// @sha256",
    "//@sha256 X",
    " // @sha256 X",
    "// @sha256 // @sha256 Y",
    "//",
    "// foo",
    "",
    "x",
    "#![allow]",
    "/// @sha256 Z",
    "// @sha256  W",
    "// @SHA256 X",
    "// @sha256 // @sha256 ",
    "// @sha256 é€",
];

fn check_text(text: &str) -> Option<(String, Value, Value)> {
    let want = reference_hash(text);
    match catch(|| kiki::get_grammar_hash(kiki::RustSrcRef(text)).map(|s| s.to_string())) {
        Err(p) => Some((format!("get_grammar_hash panicked on {text:?}: {}", normalize_panic(&p)), json!(want), json!(format!("panic: {p}")))),
        Ok(got) => {
            if got.as_deref() != want {
                Some((format!("get_grammar_hash({text:?}) returned {got:?}; the first `// @sha256 ` line of the leading comment block gives {want:?}"), json!(want), json!(got)))
            } else {
                None
            }
        }
    }
}

/// Round trip for one accepted source: header shape and digest.
fn check_round_trip(src: &str, emitted: &str) -> Option<(String, Value, Value)> {
    let digest = crate::sha256::hex(src.as_bytes());
    let got = kiki::get_grammar_hash(kiki::RustSrcRef(emitted)).map(|s| s.to_string());
    if got.as_deref() != Some(digest.as_str()) {
        return Some((format!("get_grammar_hash(generate(src)) is {got:?}, the SHA-256 of the source is {digest}"), json!(digest), json!(got)));
    }
    // the header: the text begins with `//` lines, one of which carries the digest
    let first = emitted.lines().next().unwrap_or("");
    if !first.starts_with("//") {
        return Some(("the emitted text does not begin with a `//` comment header".to_string(), json!("// ..."), json!(first)));
    }
    let header: Vec<&str> = emitted.lines().take_while(|l| l.starts_with("//")).collect();
    if !header.iter().any(|l| l.contains(&digest)) {
        return Some(("the leading comment header does not contain the SHA-256 of the source".to_string(), json!(digest), json!(header)));
    }
    None
}

fn layout_variants(src: &str) -> Vec<String> {
    let mut v = vec![src.to_string()];
    v.push(format!("{src}\n"));
    v.push(src.trim_end().to_string());
    v.push(src.replace('\n', "\r\n"));
    v.push(format!("// héllo €😀\n{src}"));
    v.push(format!("{src}\n// trailing comment without newline"));
    v.push(src.replace('\n', "\n\n"));
    v.dedup();
    v
}

pub fn run(ctx: &Ctx) -> Outcome {
    let mut out = Outcome::new("exploration");
    let max_lines = ctx.tier.pick(5usize, 6usize);
    // (a) all texts: each line has a content and a terminator (LF / CRLF); the last line may have none
    let n = LINES.len();
    let firsts: Vec<(usize, usize)> = (0..n).flat_map(|a| (0..2).map(move |t| (a, t))).collect();
    let accs: Vec<Acc> = firsts
        .par_iter()
        .map(|(a0, t0)| {
            let mut acc = Acc::default();
            fn rec(text: &mut String, lines_left: usize, acc: &mut Acc) {
                // the text so far ends with a terminator; also try every unterminated last line
                acc.inc("texts");
                if let Some((what, e, o)) = check_text(text) {
                    acc.finding(Finding::new("hash_text", json!({"text": text}), what, e, o));
                }
                if lines_left == 0 {
                    return;
                }
                for l in LINES.iter() {
                    let len = text.len();
                    text.push_str(l);
                    if !l.is_empty() {
                        acc.inc("texts");
                        if let Some((what, e, o)) = check_text(text) {
                            acc.finding(Finding::new("hash_text", json!({"text": text}), what, e, o));
                        }
                    }
                    for term in ["\n", "\r\n"] {
                        let len2 = text.len();
                        text.push_str(term);
                        rec(text, lines_left - 1, acc);
                        text.truncate(len2);
                    }
                    text.truncate(len);
                }
            }
            let mut text = String::new();
            text.push_str(LINES[*a0]);
            text.push_str(if *t0 == 0 { "\n" } else { "\r\n" });
            rec(&mut text, max_lines - 1, &mut acc);
            acc
        })
        .collect();
    let mut acc = Acc::default();
    for a in accs {
        acc.merge(a);
    }
    for t in ["", "// @sha256 X", "x", "\n// @sha256 X", "\r\n// @sha256 X", "// a\r// @sha256 X\n", "// @sha256 X\r", "//\u{2028}// @sha256 X"] {
        acc.inc("texts");
        if let Some((what, e, o)) = check_text(t) {
            acc.finding(Finding::new("hash_text", json!({"text": t}), what, e, o));
        }
    }
    let part_a = acc.get("texts");
    // (b) round trip and (c) freshness
    let mut sources: Vec<String> = vec![];
    for (_, s) in crate::corpus::accepted_repo_sources() {
        sources.extend(layout_variants(&s));
    }
    {
        let sc = Scope { n: 2, t: 2, p: 3, k: 2, symmetry: false, only_cyclic: false };
        let rhss = all_rhs(sc.n, sc.t, sc.k);
        let mut idx = 0u64;
        for unit in work_units(&sc, u128::MAX) {
            for_each_completion(&sc, &rhss, &unit, &mut |gr| {
                let pres = Presentation::rotating(&gr, idx);
                idx += 1;
                let case = Case::new(gr, pres);
                if idx % ctx.tier.pick(3, 1) == 0 {
                    sources.extend(layout_variants(&case.rendered.source).into_iter().take(if idx % 5 == 0 { 7 } else { 1 }));
                }
            });
        }
    }
    let results: Vec<(Option<Finding>, bool, String)> = sources
        .par_iter()
        .map(|src| match generate(src) {
            Gen::Ok(text) => (check_round_trip(src, &text).map(|(what, e, o)| Finding::new("hash_round_trip", json!({"source": src}), what, e, o)), true, kiki::get_grammar_hash(kiki::RustSrcRef(&text)).unwrap_or("").to_string()),
            _ => (None, false, String::new()),
        })
        .collect();
    let mut by_digest: BTreeMap<String, &String> = BTreeMap::new();
    let mut round_trips = 0u64;
    for (i, (f, accepted, stored)) in results.iter().enumerate() {
        if !*accepted {
            continue;
        }
        round_trips += 1;
        if let Some(f) = f {
            acc.finding(f.clone());
            continue;
        }
        // freshness: equal stored digests only for byte-identical sources
        match by_digest.get(stored) {
            Some(other) if **other != sources[i] => acc.finding(Finding::new(
                "hash_round_trip",
                json!({"source": sources[i], "other_source": other}),
                "two different grammar texts carry the same stored digest, so the build-script freshness test would wrongly succeed".to_string(),
                json!("different digests"),
                json!(stored),
            )),
            _ => {
                by_digest.insert(stored.clone(), &sources[i]);
            }
        }
    }
    out.cov("evaluations", json!(part_a + round_trips));
    out.cov("distinct_nontrivial", json!(part_a + by_digest.len() as u64 - 1));
    out.cov("rule", json!(format!("(a) every text of at most {max_lines} lines over the {n}-line alphabet {:?}, every line ended by LF or CRLF, the last one optionally unterminated, compared with a direct implementation of the stated rule; (b) every accepted source of the corpus (repository examples and G(2,2,3,2) under rotating presentations, each in up to 7 layouts: trailing newline, CRLF, non-ASCII comment, ...): header shape and get_grammar_hash(generate(src)) == R-sha256(src); (c) distinct sources have distinct stored digests. All texts are distinct; non-trivial = non-empty", LINES)));
    out.cov("exhaustive", json!(true));
    out.cov("scopes", json!([{"name": "get_grammar_hash line space", "size": part_a, "completed": true, "exhaustive": true}, {"name": "round trips", "size": round_trips, "distinct_digests": by_digest.len(), "completed": true, "exhaustive": true}]));
    out.cov("samples", json!(["// foo\r\n// @sha256 // @sha256 Y\n", "// @sha256\n// @sha256 X", sources.first().cloned().unwrap_or_default().chars().take(120).collect::<String>()]));
    out.violating_cases = acc.violating;
    out.findings = acc.findings;
    out.assumptions = vec!["a line ends at LF or CRLF (the natural reading of 'line' for emitted Rust text); R-sha256 is checked against the FIPS test vectors at start-up".into()];
    out
}

pub fn replay(kind: &str, case: &Value) -> Option<Vec<Finding>> {
    match kind {
        "hash_text" => {
            let t = case["text"].as_str()?;
            Some(match check_text(t) {
                Some((what, e, o)) => vec![Finding::new("hash_text", case.clone(), what, e, o)],
                None => vec![],
            })
        }
        "hash_round_trip" => {
            let src = case["source"].as_str()?;
            let Gen::Ok(text) = generate(src) else { return Some(vec![]) };
            if let Some(other) = case["other_source"].as_str() {
                let Gen::Ok(t2) = generate(other) else { return Some(vec![]) };
                let (a, b) = (kiki::get_grammar_hash(kiki::RustSrcRef(&text)), kiki::get_grammar_hash(kiki::RustSrcRef(&t2)));
                return Some(if a == b && src != other { vec![Finding::new("hash_round_trip", case.clone(), "two different grammar texts carry the same stored digest".to_string(), json!("different digests"), json!(a))] } else { vec![] });
            }
            Some(match check_round_trip(src, &text) {
                Some((what, e, o)) => vec![Finding::new("hash_round_trip", case.clone(), what, e, o)],
                None => vec![],
            })
        }
        _ => None,
    }
}
