//! Token-level extractor for the emitted parser text (not line-format dependent):
//! ACTION/GOTO tables, start state, per-rule reduce functions (pop count, truncate amount,
//! constructor path, nonterminal kind), enum discriminants, and a fingerprint of the driver loop.

use std::collections::BTreeMap;

#[derive(Clone, Copy, Debug, PartialEq, Eq)]
pub enum Tok<'a> {
    Ident(&'a str),
    Num(&'a str),
    Punct(char),
    Str(&'a str),
    Lifetime(&'a str),
}

impl<'a> Tok<'a> {
    pub fn ident(&self) -> Option<&'a str> {
        match self {
            Tok::Ident(s) => Some(s),
            _ => None,
        }
    }
    pub fn is(&self, c: char) -> bool {
        matches!(self, Tok::Punct(x) if *x == c)
    }
    pub fn is_ident(&self, s: &str) -> bool {
        matches!(self, Tok::Ident(x) if *x == s)
    }
}

/// A small Rust lexer: identifiers, numbers, string/char literals, lifetimes, single-char punctuation;
/// comments and whitespace are skipped. Tokens borrow from the source.
pub fn lex_rust(src: &str) -> Result<Vec<Tok<'_>>, String> {
    let b = src.as_bytes();
    let n = b.len();
    let mut i = 0;
    let mut out = Vec::with_capacity(n / 4);
    let is_id_start = |c: u8| c.is_ascii_alphabetic() || c == b'_' || c >= 0x80;
    let is_id_cont = |c: u8| c.is_ascii_alphanumeric() || c == b'_' || c >= 0x80;
    while i < n {
        let c = b[i];
        if c.is_ascii_whitespace() {
            i += 1;
        } else if c == b'/' && i + 1 < n && b[i + 1] == b'/' {
            while i < n && b[i] != b'\n' {
                i += 1;
            }
        } else if c == b'/' && i + 1 < n && b[i + 1] == b'*' {
            let mut depth = 1;
            i += 2;
            while i < n && depth > 0 {
                if b[i] == b'/' && i + 1 < n && b[i + 1] == b'*' {
                    depth += 1;
                    i += 2;
                } else if b[i] == b'*' && i + 1 < n && b[i + 1] == b'/' {
                    depth -= 1;
                    i += 2;
                } else {
                    i += 1;
                }
            }
        } else if is_id_start(c) {
            let s = i;
            while i < n && is_id_cont(b[i]) {
                i += 1;
            }
            out.push(Tok::Ident(&src[s..i]));
        } else if c.is_ascii_digit() {
            let s = i;
            while i < n && is_id_cont(b[i]) {
                i += 1;
            }
            out.push(Tok::Num(&src[s..i]));
        } else if c == b'"' {
            let s = i;
            i += 1;
            while i < n && b[i] != b'"' {
                if b[i] == b'\\' {
                    i += 1;
                }
                i += 1;
            }
            if i >= n {
                return Err("unterminated string literal".into());
            }
            i += 1;
            out.push(Tok::Str(&src[s..i]));
        } else if c == b'\'' {
            // lifetime or char literal
            if i + 2 < n && b[i + 2] == b'\'' && b[i + 1] != b'\\' {
                out.push(Tok::Str(&src[i..i + 3]));
                i += 3;
            } else if i + 1 < n && b[i + 1] == b'\\' {
                let s = i;
                i += 2;
                while i < n && b[i] != b'\'' {
                    i += 1;
                }
                i = (i + 1).min(n);
                out.push(Tok::Str(&src[s..i]));
            } else {
                let s = i;
                i += 1;
                while i < n && is_id_cont(b[i]) {
                    i += 1;
                }
                out.push(Tok::Lifetime(&src[s..i]));
            }
        } else {
            out.push(Tok::Punct(c as char));
            i += 1;
        }
    }
    Ok(out)
}

#[derive(Clone, Copy, Debug, PartialEq, Eq)]
pub enum Cell {
    Shift(usize),
    Reduce(usize),
    Accept,
    Err,
}

#[derive(Clone, Debug)]
pub struct ReduceFn {
    pub name: String,
    /// number of `nodes.pop()` calls
    pub pops: usize,
    /// `states.truncate(states.len() - n)`; 0 if absent
    pub truncate: usize,
    /// constructor path, e.g. ["Expr", "Wrap"] or ["Foo"]
    pub constructor: Vec<String>,
    /// the variant of the node enum the result is wrapped in
    pub node_variant: String,
    /// the nonterminal kind returned
    pub kind: String,
}

#[derive(Clone, Debug)]
pub struct Extracted {
    pub action: Vec<Vec<Cell>>,
    pub goto: Vec<Vec<Option<usize>>>,
    pub start: usize,
    /// rule kind index -> reduce function
    pub reduce: Vec<ReduceFn>,
    /// names of the columns of the action table, in order (terminal names then the end-of-input variant)
    pub quasiterminal_kinds: Vec<String>,
    /// names of the columns of the goto table
    pub nonterminal_kinds: Vec<String>,
    pub terminal_enum: String,
    pub start_type: String,
    pub driver_fingerprint: String,
    pub names: GeneratedNames,
}

#[derive(Clone, Debug, Default)]
pub struct GeneratedNames {
    pub state_enum: String,
    pub action_enum: String,
    pub rule_kind_enum: String,
    pub node_enum: String,
    pub quasiterminal_enum: String,
    pub quasiterminal_kind_enum: String,
    pub nonterminal_kind_enum: String,
    pub action_table: String,
    pub goto_table: String,
}

struct P<'a> {
    t: &'a [Tok<'a>],
    fns: std::collections::HashMap<&'a str, usize>,
    enums: std::collections::HashMap<&'a str, usize>,
}

impl<'a> P<'a> {
    /// index just after the bracket matching the opener at `open`
    fn skip_group(&self, open: usize) -> Result<usize, String> {
        let (o, c) = match &self.t[open] {
            Tok::Punct('(') => ('(', ')'),
            Tok::Punct('[') => ('[', ']'),
            Tok::Punct('{') => ('{', '}'),
            x => return Err(format!("expected an opening bracket, found {x:?}")),
        };
        let mut depth = 0usize;
        let mut i = open;
        while i < self.t.len() {
            if self.t[i].is(o) {
                depth += 1;
            } else if self.t[i].is(c) {
                depth -= 1;
                if depth == 0 {
                    return Ok(i + 1);
                }
            }
            i += 1;
        }
        Err("unbalanced brackets".into())
    }

    /// Finds `enum <name> {` at top level and returns its variants as (name, discriminant?) pairs.
    fn enum_variants(&self, name: &str) -> Result<Vec<(String, Option<usize>)>, String> {
        if let Some(&i) = self.enums.get(name) {
            if self.t[i + 2].is('{') {
                let end = self.skip_group(i + 2)?;
                let mut out = vec![];
                let mut j = i + 3;
                while j < end - 1 {
                    // skip attributes
                    if self.t[j].is('#') {
                        j = self.skip_group(j + 1)?;
                        continue;
                    }
                    let Some(v) = self.t[j].ident() else { return Err(format!("enum {name}: expected a variant name")) };
                    j += 1;
                    let mut disc = None;
                    if j < end && (self.t[j].is('(') || self.t[j].is('{')) {
                        j = self.skip_group(j)?;
                    }
                    if j < end && self.t[j].is('=') {
                        if let Tok::Num(nn) = &self.t[j + 1] {
                            disc = nn.parse::<usize>().ok();
                        }
                        j += 2;
                    }
                    if j < end && self.t[j].is(',') {
                        j += 1;
                    }
                    out.push((v.to_string(), disc));
                }
                return Ok(out);
            }
        }
        Err(format!("enum {name} not found"))
    }

    fn find_fn(&self, name: &str) -> Option<(usize, usize, usize)> {
        // returns (index of `fn`, index of body `{`, index after body)
        if let Some(&i) = self.fns.get(name) {
            {
                let mut j = i + 2;
                while j < self.t.len() && !self.t[j].is('{') {
                    if self.t[j].is('(') || self.t[j].is('[') {
                        j = self.skip_group(j).ok()?;
                    } else {
                        j += 1;
                    }
                }
                let end = self.skip_group(j).ok()?;
                return Some((i, j, end));
            }
        }
        None
    }
}

fn variant_index(variants: &[(String, Option<usize>)], name: &str, what: &str) -> Result<usize, String> {
    let pos = variants.iter().position(|v| v.0 == name).ok_or_else(|| format!("{what}: unknown variant {name}"))?;
    // explicit discriminant if written, else position
    Ok(variants[pos].1.unwrap_or(pos))
}

pub fn extract(src: &str) -> Result<Extracted, String> {
    let toks = lex_rust(src)?;
    let mut fns = std::collections::HashMap::new();
    let mut enums = std::collections::HashMap::new();
    for i in 0..toks.len().saturating_sub(2) {
        if toks[i].is_ident("fn") {
            if let Some(nm) = toks[i + 1].ident() {
                fns.entry(nm).or_insert(i);
            }
        } else if toks[i].is_ident("enum") {
            if let Some(nm) = toks[i + 1].ident() {
                enums.entry(nm).or_insert(i);
            }
        }
    }
    let p = P { t: &toks, fns, enums };
    let t = &toks;
    let mut names = GeneratedNames::default();

    // --- the two tables: `static|const NAME : [ [ ELEM ; c ] ; r ] = [ ... ] ;`
    struct RawTable<'a> {
        name: String,
        elem: Vec<Tok<'a>>,
        cols: usize,
        rows: usize,
        body: (usize, usize),
    }
    let mut tables: Vec<RawTable<'_>> = vec![];
    let mut i = 0;
    while i + 4 < t.len() {
        if (t[i].is_ident("static") || t[i].is_ident("const")) && t[i + 1].ident().is_some() && t[i + 2].is(':') && t[i + 3].is('[') && t[i + 4].is('[') {
            let name = t[i + 1].ident().unwrap().to_string();
            // element type: tokens until the `;` at depth 0 of the inner bracket
            let mut j = i + 5;
            let mut depth = 0i32;
            let mut elem = vec![];
            while j < t.len() {
                if t[j].is(';') && depth == 0 {
                    break;
                }
                if t[j].is('<') || t[j].is('(') || t[j].is('[') {
                    depth += 1;
                }
                if t[j].is('>') || t[j].is(')') || t[j].is(']') {
                    depth -= 1;
                }
                elem.push(t[j].clone());
                j += 1;
            }
            let Tok::Num(c) = &t[j + 1] else { return Err("table type: column count".into()) };
            if !(t[j + 2].is(']') && t[j + 3].is(';')) {
                return Err("table type: shape".into());
            }
            let Tok::Num(r) = &t[j + 4] else { return Err("table type: row count".into()) };
            if !(t[j + 5].is(']') && t[j + 6].is('=') && t[j + 7].is('[')) {
                return Err("table initialiser: shape".into());
            }
            let end = p.skip_group(j + 7)?;
            tables.push(RawTable { name, elem, cols: c.parse().map_err(|_| "cols")?, rows: r.parse().map_err(|_| "rows")?, body: (j + 8, end - 1) });
            i = end;
        } else {
            i += 1;
        }
    }
    if tables.len() != 2 {
        return Err(format!("expected 2 two-dimensional tables, found {}", tables.len()));
    }
    let (act_t, goto_t) = if tables[0].elem.first().map(|x| x.is_ident("Option")).unwrap_or(false) { (&tables[1], &tables[0]) } else { (&tables[0], &tables[1]) };
    if !goto_t.elem.first().map(|x| x.is_ident("Option")).unwrap_or(false) {
        return Err("goto table element type is not Option<..>".into());
    }
    names.action_table = act_t.name.clone();
    names.goto_table = goto_t.name.clone();
    names.action_enum = act_t.elem.first().and_then(|x| x.ident()).ok_or("action element type")?.to_string();
    names.state_enum = goto_t.elem.get(2).and_then(|x| x.ident()).ok_or("goto element type")?.to_string();
    let state_variants = p.enum_variants(&names.state_enum)?;
    // Action enum: find the payload types of Shift and Reduce
    let action_variants = p.enum_variants(&names.action_enum)?;
    if action_variants.len() != 4 {
        return Err(format!("action enum has {} variants", action_variants.len()));
    }
    // rule kind enum name: the payload of the `Reduce`-like variant; find via `enum Action { Shift(State), Reduce(RuleKind), ..}`
    {
        let mut found = None;
        if let Some(&i) = p.enums.get(names.action_enum.as_str()) {
            {
                // second variant payload
                let mut j = i + 3;
                let mut payloads = vec![];
                let end = p.skip_group(i + 2)?;
                while j < end {
                    if t[j].ident().is_some() && j + 1 < end && t[j + 1].is('(') {
                        payloads.push((t[j].ident().unwrap().to_string(), t[j + 2].ident().unwrap_or("").to_string()));
                        j = p.skip_group(j + 1)?;
                    } else {
                        j += 1;
                    }
                }
                found = Some(payloads);
            }
        }
        let payloads = found.ok_or("action enum body")?;
        let rk = payloads.iter().find(|(_, ty)| *ty != names.state_enum).ok_or("reduce variant")?;
        names.rule_kind_enum = rk.1.clone();
    }
    let shift_name = &action_variants[0].0;
    let reduce_name = &action_variants[1].0;
    let accept_name = &action_variants[2].0;
    let err_name = &action_variants[3].0;
    let rule_variants = p.enum_variants(&names.rule_kind_enum)?;

    // rows of a table body: `[ cell , cell , ] ,`
    let rows_of = |body: (usize, usize)| -> Result<Vec<(usize, usize)>, String> {
        let mut rows = vec![];
        let mut j = body.0;
        while j < body.1 {
            if t[j].is('[') {
                let e = p.skip_group(j)?;
                rows.push((j + 1, e - 1));
                j = e;
            } else if t[j].is(',') {
                j += 1;
            } else {
                return Err(format!("unexpected token in table body: {:?}", t[j]));
            }
        }
        Ok(rows)
    };
    // split a row into cells at depth-0 commas
    let cells_of = |row: (usize, usize)| -> Vec<(usize, usize)> {
        let mut cells = vec![];
        let mut depth = 0;
        let mut s = row.0;
        for j in row.0..row.1 {
            if t[j].is('(') || t[j].is('[') {
                depth += 1;
            } else if t[j].is(')') || t[j].is(']') {
                depth -= 1;
            } else if t[j].is(',') && depth == 0 {
                if j > s {
                    cells.push((s, j));
                }
                s = j + 1;
            }
        }
        if row.1 > s {
            cells.push((s, row.1));
        }
        cells
    };
    // last identifier of a path starting at j: A :: B :: C
    let path_at = |mut j: usize, end: usize| -> (Vec<String>, usize) {
        let mut path = vec![];
        while j < end {
            if let Some(id) = t[j].ident() {
                path.push(id.to_string());
                if j + 2 < end + 1 && j + 2 <= end && t.get(j + 1).map(|x| x.is(':')).unwrap_or(false) && t.get(j + 2).map(|x| x.is(':')).unwrap_or(false) {
                    j += 3;
                    continue;
                }
                j += 1;
            }
            break;
        }
        (path, j)
    };

    let mut action = vec![];
    for row in rows_of(act_t.body)? {
        let mut r = vec![];
        for (s, e) in cells_of(row) {
            let (path, j) = path_at(s, e);
            let last = path.last().ok_or("empty action cell")?;
            let cell = if last == shift_name || last == reduce_name {
                if !(j < e && t[j].is('(')) {
                    return Err("action cell: missing argument".into());
                }
                let (arg, _) = path_at(j + 1, e);
                let v = arg.last().ok_or("action cell: empty argument")?;
                if last == shift_name {
                    Cell::Shift(variant_index(&state_variants, v, "state")?)
                } else {
                    Cell::Reduce(variant_index(&rule_variants, v, "rule kind")?)
                }
            } else if last == accept_name {
                Cell::Accept
            } else if last == err_name {
                Cell::Err
            } else {
                return Err(format!("action cell: unknown variant {last}"));
            };
            r.push(cell);
        }
        if r.len() != act_t.cols {
            return Err(format!("action row has {} cells, type says {}", r.len(), act_t.cols));
        }
        action.push(r);
    }
    if action.len() != act_t.rows {
        return Err("action row count differs from its type".into());
    }
    let mut goto = vec![];
    for row in rows_of(goto_t.body)? {
        let mut r = vec![];
        for (s, e) in cells_of(row) {
            if t[s].is_ident("None") {
                r.push(None);
            } else if t[s].is_ident("Some") && t[s + 1].is('(') {
                let (arg, _) = path_at(s + 2, e);
                r.push(Some(variant_index(&state_variants, arg.last().ok_or("goto cell")?, "state")?));
            } else {
                return Err("goto cell: neither None nor Some(..)".into());
            }
        }
        if r.len() != goto_t.cols {
            return Err("goto row length differs from its type".into());
        }
        goto.push(r);
    }
    if goto.len() != goto_t.rows || goto.len() != action.len() {
        return Err("goto row count".into());
    }

    // --- get_action / get_goto: learn the kind enums from the parameter types, and check the indexing shape
    let kind_param = |fname: &str| -> Result<String, String> {
        let (f, body, _) = p.find_fn(fname).ok_or(format!("fn {fname} not found"))?;
        // last `: Type` before the closing paren of the parameter list
        let mut last = None;
        for j in f..body {
            if t[j].is(':') && !t[j + 1].is(':') && !t[j - 1].is(':') {
                if let Some(id) = t[j + 1].ident() {
                    last = Some(id.to_string());
                }
            }
            if t[j].is('-') && t[j + 1].is('>') {
                break;
            }
        }
        last.ok_or(format!("fn {fname}: parameter types"))
    };
    names.quasiterminal_kind_enum = kind_param("get_action")?;
    names.nonterminal_kind_enum = kind_param("get_goto")?;
    let qk = p.enum_variants(&names.quasiterminal_kind_enum)?;
    let nk = p.enum_variants(&names.nonterminal_kind_enum)?;
    let mut quasiterminal_kinds = vec![String::new(); qk.len()];
    for (pos, (nm, d)) in qk.iter().enumerate() {
        let idx = d.unwrap_or(pos);
        if idx >= qk.len() {
            return Err("quasiterminal kind discriminant out of range".into());
        }
        quasiterminal_kinds[idx] = nm.clone();
    }
    // one slot per column of the goto table: the kind whose discriminant selects that column ("" = no kind does).
    // `get_goto` indexes the table with `kind as usize`, so this is the effective column assignment even if the
    // kind enum and the table disagree in width.
    let mut nonterminal_kinds = vec![String::new(); goto_t.cols];
    for (pos, (nm, d)) in nk.iter().enumerate() {
        let idx = d.unwrap_or(pos);
        if idx >= goto_t.cols {
            return Err("nonterminal kind discriminant beyond the goto table".into());
        }
        nonterminal_kinds[idx] = nm.clone();
    }
    if quasiterminal_kinds.len() != act_t.cols {
        return Err("kind enums do not match the table widths".into());
    }

    // --- parse(): signature, start state, node enum, fingerprint
    let (pf, pbody, pend) = p.find_fn("parse").ok_or("fn parse not found")?;
    // return type: Result<Start, Option<Tok>>
    let mut start_type = String::new();
    let mut terminal_enum = String::new();
    for j in pf..pbody {
        if t[j].is_ident("Result") && t[j + 1].is('<') {
            start_type = t[j + 2].ident().unwrap_or("").to_string();
            for k in j + 3..pbody {
                if t[k].is_ident("Option") && t[k + 1].is('<') {
                    terminal_enum = t[k + 2].ident().unwrap_or("").to_string();
                    break;
                }
            }
            break;
        }
    }
    if start_type.is_empty() || terminal_enum.is_empty() {
        return Err("parse signature not understood".into());
    }
    // start state: vec![State::Sk]
    let mut start = None;
    for j in pbody..pend {
        if t[j].is_ident("vec") && t[j + 1].is('!') && t[j + 2].is('[') && t[j + 3].is_ident(&names.state_enum) {
            let (path, _) = path_at(j + 3, pend);
            start = Some(variant_index(&state_variants, path.last().unwrap(), "start state")?);
            break;
        }
    }
    let start = start.ok_or("start state not found in parse")?;
    // node enum: `let mut nodes: Vec<Node>`
    for j in pbody..pend {
        if t[j].is_ident("nodes") && t[j + 1].is(':') && t[j + 2].is_ident("Vec") && t[j + 3].is('<') {
            names.node_enum = t[j + 4].ident().unwrap_or("").to_string();
        }
    }
    // quasiterminal enum: `.map(Quasiterminal::Terminal)`
    for j in pbody..pend {
        if t[j].is_ident("map") && t[j + 1].is('(') {
            names.quasiterminal_enum = t[j + 2].ident().unwrap_or("").to_string();
            break;
        }
    }
    if names.node_enum.is_empty() {
        return Err("node enum not found".into());
    }
    // fingerprint of the driver: token stream of parse() with generated / user names replaced by roles
    let qeof = quasiterminal_kinds.last().cloned().unwrap_or_default();
    let mut role: BTreeMap<String, &'static str> = BTreeMap::new();
    role.insert(names.state_enum.clone(), "STATE");
    role.insert(names.action_enum.clone(), "ACTION");
    role.insert(names.node_enum.clone(), "NODE");
    role.insert(names.quasiterminal_enum.clone(), "QUASI");
    role.insert(names.quasiterminal_kind_enum.clone(), "QUASIKIND");
    role.insert(start_type.clone(), "START");
    role.insert(terminal_enum.clone(), "TERMINALS");
    role.insert(qeof, "EOF");
    // the type parameter of parse (uniquified when a user type is called `S`)
    if t[pf + 2].is('<') {
        if let Some(tp) = t[pf + 3].ident() {
            role.insert(tp.to_string(), "SRC");
        }
    }
    let mut fp = String::new();
    for j in pf..pend {
        let piece = match &t[j] {
            Tok::Ident(s) => {
                if let Some(r) = role.get(*s) {
                    r.to_string()
                } else if state_variants.iter().any(|v| v.0 == *s) {
                    "STATEVARIANT".to_string()
                } else {
                    s.to_string()
                }
            }
            Tok::Num(s) | Tok::Str(s) | Tok::Lifetime(s) => s.to_string(),
            Tok::Punct(c) => c.to_string(),
        };
        fp.push_str(&piece);
        fp.push(' ');
    }

    // --- pop_and_reduce: rule kind -> reduction code (a call of a reduce function, or an inline block)
    let (_, prb, pre) = p.find_fn("pop_and_reduce").ok_or("fn pop_and_reduce not found")?;
    let mut bodies: Vec<Option<(String, usize, usize)>> = vec![None; rule_variants.len()];
    let mut j = prb;
    while j + 6 < pre {
        if t[j].is_ident(&names.rule_kind_enum) && t[j + 1].is(':') && t[j + 2].is(':') && t[j + 4].is('=') && t[j + 5].is('>') {
            let v = t[j + 3].ident().ok_or("rule kind arm")?;
            let idx = variant_index(&rule_variants, v, "rule kind")?;
            if idx >= bodies.len() {
                return Err("rule kind index out of range".into());
            }
            if t[j + 6].is('{') {
                let e = p.skip_group(j + 6)?;
                bodies[idx] = Some((format!("inline arm {v}"), j + 6, e));
                j = e;
            } else {
                let f = t[j + 6].ident().ok_or("reduce fn name")?;
                let (_, b, e) = p.find_fn(f).ok_or(format!("fn {f} not found"))?;
                bodies[idx] = Some((f.to_string(), b, e));
                j += 7;
            }
        } else {
            j += 1;
        }
    }
    let mut reduce = vec![];
    for (k, body) in bodies.iter().enumerate() {
        let (nm, b, e) = body.clone().ok_or(format!("no reduction code for rule kind {k}"))?;
        let mut pops = 0;
        let mut truncate = 0;
        let mut constructor = vec![];
        let mut node_variant = String::new();
        let mut kind = String::new();
        let mut j = b;
        while j < e {
            if t[j].is('.') && t[j + 1].is_ident("pop") && t[j + 2].is('(') && t[j + 3].is(')') {
                pops += 1;
            }
            if t[j].is('.') && t[j + 1].is_ident("truncate") && t[j + 2].is('(') {
                // states.truncate(states.len() - n)
                let ge = p.skip_group(j + 2)?;
                let mut amount = None;
                for k2 in j + 2..ge {
                    if t[k2].is('-') {
                        if let Tok::Num(nn) = &t[k2 + 1] {
                            amount = nn.parse::<usize>().ok();
                        }
                    }
                }
                truncate = amount.ok_or("truncate amount not understood")?;
            }
            if t[j].is_ident(&names.node_enum) && t[j + 1].is(':') && t[j + 2].is(':') && t[j + 4].is('(') && j > b && (t[j - 1].is('(') || t[j - 1].is(',')) {
                node_variant = t[j + 3].ident().unwrap_or("").to_string();
                let (path, _) = path_at(j + 5, e);
                constructor = path;
            }
            if t[j].is_ident(&names.nonterminal_kind_enum) && t[j + 1].is(':') && t[j + 2].is(':') {
                kind = t[j + 3].ident().unwrap_or("").to_string();
            }
            j += 1;
        }
        if constructor.is_empty() || kind.is_empty() {
            return Err(format!("reduction code {nm}: constructor or kind not found"));
        }
        reduce.push(ReduceFn { name: nm, pops, truncate, constructor, node_variant, kind });
    }

    Ok(Extracted { action, goto, start, reduce, quasiterminal_kinds, nonterminal_kinds, terminal_enum, start_type, driver_fingerprint: fp, names })
}
