//! The presentation space, enumerated exhaustively: {struct, sole-variant enum, first / middle / last
//! variant} x {named, tuple, empty} x field count 0..3 x every used/`_` mask x every assignment of
//! terminal / nonterminal / recursive symbols to the fields, each embedded in two carrier grammars
//! (pattern at the root; pattern as an inner node).

use crate::refgram::{Grammar, Sym};
use crate::scopes::{Presentation, ProdStyle};

#[derive(Clone, Copy, Debug, PartialEq, Eq)]
pub enum Kind {
    Struct,
    SoleVariant,
    FirstVariant,
    MiddleVariant,
    LastVariant,
}

#[derive(Clone, Copy, Debug, PartialEq, Eq)]
pub enum FieldSym {
    /// a terminal (a different one per position)
    T,
    /// the nonterminal `Leaf`
    N,
    /// the pattern's own nonterminal (recursion)
    R,
}

#[derive(Clone, Debug)]
pub struct Pattern {
    pub kind: Kind,
    pub named: bool,
    pub syms: Vec<FieldSym>,
    pub skip_mask: u32,
    /// false: the pattern's nonterminal is the start symbol; true: it is wrapped by `Root { inner: P, _: $end }`
    pub inner: bool,
}

impl Pattern {
    pub fn describe(&self) -> String {
        format!(
            "{:?} {} [{}]{}",
            self.kind,
            if self.syms.is_empty() { "empty" } else if self.named { "named" } else { "tuple" },
            self.syms.iter().enumerate().map(|(i, s)| format!("{}{:?}", if self.skip_mask >> i & 1 == 1 { "_:" } else { "" }, s)).collect::<Vec<_>>().join(" "),
            if self.inner { " inner" } else { " root" }
        )
    }
}

/// Terminal indices: 0..3 positional, 3 leaf, 4 other-variant-before, 5 other-variant-after, 6 end marker.
pub const LONG_MAX: usize = 13;
pub const T_LEAF: u8 = 3;
pub const T_BEFORE: u8 = 4;
pub const T_AFTER: u8 = 5;
pub const T_END: u8 = 6;

pub fn build(p: &Pattern) -> (Grammar, Presentation, usize) {
    // nonterminals: root carrier: 0 = P, 1 = Leaf ; inner carrier: 0 = Root, 1 = P, 2 = Leaf
    let (pn, leaf, n) = if p.inner { (1u8, 2u8, 3usize) } else { (0u8, 1u8, 2usize) };
    let mut prods: Vec<(u8, Vec<Sym>)> = vec![];
    if p.inner {
        prods.push((0, vec![Sym::N(pn), Sym::T(T_END)]));
    }
    let rhs: Vec<Sym> = p
        .syms
        .iter()
        .enumerate()
        .map(|(i, s)| match s {
            FieldSym::T => Sym::T((i % 3) as u8),
            FieldSym::N => Sym::N(leaf),
            FieldSym::R => Sym::N(pn),
        })
        .collect();
    if matches!(p.kind, Kind::MiddleVariant | Kind::LastVariant) {
        prods.push((pn, vec![Sym::T(T_BEFORE)]));
    }
    let pattern_index = prods.len();
    prods.push((pn, rhs));
    if matches!(p.kind, Kind::MiddleVariant | Kind::FirstVariant) {
        prods.push((pn, vec![Sym::T(T_AFTER)]));
    }
    prods.push((leaf, vec![Sym::T(T_LEAF)]));
    let g = Grammar { n, t: 7, prods };
    let mut pres = Presentation::plain(&g);
    pres.single_as_struct = vec![true; n];
    if p.kind == Kind::SoleVariant {
        pres.single_as_struct[pn as usize] = false;
    }
    pres.styles[pattern_index] = ProdStyle { named: p.named, skip_mask: p.skip_mask };
    if p.inner {
        pres.styles[0] = ProdStyle { named: true, skip_mask: 0b10 };
        pres.names.insert("f0_0".into(), "inner".into());
    }
    pres.names.insert(format!("n{pn}"), "Pp".into());
    pres.names.insert(format!("n{leaf}"), "Leaf".into());
    if p.inner {
        pres.names.insert("n0".into(), "Root".into());
    }
    (g, pres, pattern_index)
}

/// All patterns. `with_recursion`: also assignments that use the pattern's own nonterminal (enum kinds only).
pub fn patterns(max_fields: usize, with_recursion: bool) -> Vec<Pattern> {
    let mut out = vec![];
    for kind in [Kind::Struct, Kind::SoleVariant, Kind::FirstVariant, Kind::MiddleVariant, Kind::LastVariant] {
        for inner in [false, true] {
            out.push(Pattern { kind, named: false, syms: vec![], skip_mask: 0, inner });
            for c in 1..=max_fields {
                let choices: &[FieldSym] = if with_recursion && !matches!(kind, Kind::Struct | Kind::SoleVariant) { &[FieldSym::T, FieldSym::N, FieldSym::R] } else { &[FieldSym::T, FieldSym::N] };
                let mut assignments: Vec<Vec<FieldSym>> = vec![vec![]];
                for _ in 0..c {
                    let mut next = vec![];
                    for a in &assignments {
                        for ch in choices {
                            let mut x = a.clone();
                            x.push(*ch);
                            next.push(x);
                        }
                    }
                    assignments = next;
                }
                for syms in assignments {
                    for named in [false, true] {
                        for mask in 0..(1u32 << c) {
                            out.push(Pattern { kind, named, syms: syms.clone(), skip_mask: mask, inner });
                        }
                    }
                }
            }
        }
    }
    out
}

/// Long fieldsets (4..=max_len symbols): the exhaustive space stops at 3 fields, but code that treats
/// field indices as text ("t10" < "t2"), or that special-cases counts, needs two-digit positions.
/// Terminal fields cycle through three terminals (all with the same payload type in C02, so a permutation
/// still type-checks there and only the tree comparison can see it), every third field is a nonterminal.
pub fn long_patterns(max_len: usize) -> Vec<Pattern> {
    let mut out = vec![];
    for (len, shape) in (4..=max_len).flat_map(|l| (0..3).map(move |s| (l, s))) {
        // shape 0: mixed (every third field a nonterminal); 1: terminals only; 2: nonterminals only -
        // with one type throughout, a permutation of the fields still compiles and only the tree shows it
        let syms: Vec<FieldSym> = (0..len).map(|i| if shape == 2 || (shape == 0 && i % 3 == 2) { FieldSym::N } else { FieldSym::T }).collect();
        if shape != 0 && len < 10 && len != 5 {
            continue;
        }
        let all: u32 = (1u32 << len) - 1;
        let masks = [0u32, all, 0x5555_5555 & all, 0xAAAA_AAAA & all, all & !1, all & !(1 << (len - 1)), 1, 1 << (len - 1), 0b110 & all];
        for kind in [Kind::Struct, Kind::MiddleVariant] {
            for named in [false, true] {
                let mut seen = vec![];
                for m in masks {
                    if seen.contains(&m) {
                        continue;
                    }
                    seen.push(m);
                    out.push(Pattern { kind, named, syms: syms.clone(), skip_mask: m, inner: len % 2 == 0 });
                }
            }
        }
    }
    out
}
