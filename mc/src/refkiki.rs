//! R-kiki: the published Kiki grammar, transcribed by hand (42 productions, 24 nonterminals,
//! 17 token kinds). Terminal indices follow `reflex::KINDS`.

use crate::refgram::{Grammar, Sym};
use crate::reflex::Kind;

pub struct RKiki {
    pub g: Grammar,
    pub nonterminals: Vec<&'static str>,
    /// kiki's names of the 17 token kinds, in `reflex::KINDS` order
    pub terminals: Vec<&'static str>,
    /// constructor of each production: (type, variant)
    pub constructors: Vec<(&'static str, Option<&'static str>)>,
}

enum S {
    N(&'static str),
    T(Kind),
}

pub fn rkiki() -> RKiki {
    use Kind::*;
    use S::*;
    let nts: Vec<&'static str> = vec![
        "File", "OptItems", "FileItem", "Struct", "Enum", "TerminalEnum", "OptOuterAttributes", "Fieldset", "NamedFieldset", "NamedFields", "NamedField", "TupleFieldset", "TupleFields", "TupleField", "OptEnumVariants", "EnumVariant",
        "OptTerminalEnumVariants", "TerminalEnumVariant", "Type", "Path", "ComplexType", "CommaSeparatedTypes", "IdentOrUnderscore", "IdentOrTerminalIdent",
    ];
    let table: Vec<(&'static str, Option<&'static str>, Vec<S>)> = vec![
        ("File", None, vec![N("OptItems")]),
        ("OptItems", Some("Nil"), vec![]),
        ("OptItems", Some("Cons"), vec![N("OptItems"), N("FileItem")]),
        ("FileItem", Some("Start"), vec![T(StartKw), T(Ident)]),
        ("FileItem", Some("Struct"), vec![N("Struct")]),
        ("FileItem", Some("Enum"), vec![N("Enum")]),
        ("FileItem", Some("Terminal"), vec![N("TerminalEnum")]),
        ("Struct", None, vec![N("OptOuterAttributes"), T(StructKw), T(Ident), N("Fieldset")]),
        ("Enum", None, vec![N("OptOuterAttributes"), T(EnumKw), T(Ident), T(LCurly), N("OptEnumVariants"), T(RCurly)]),
        ("TerminalEnum", None, vec![N("OptOuterAttributes"), T(TerminalKw), T(Ident), T(LCurly), N("OptTerminalEnumVariants"), T(RCurly)]),
        ("OptOuterAttributes", Some("Nil"), vec![]),
        ("OptOuterAttributes", Some("Cons"), vec![N("OptOuterAttributes"), T(Attr)]),
        ("Fieldset", Some("Empty"), vec![]),
        ("Fieldset", Some("Named"), vec![N("NamedFieldset")]),
        ("Fieldset", Some("Tuple"), vec![N("TupleFieldset")]),
        ("NamedFieldset", None, vec![T(LCurly), N("NamedFields"), T(RCurly)]),
        ("NamedFields", Some("One"), vec![N("NamedField")]),
        ("NamedFields", Some("Cons"), vec![N("NamedFields"), N("NamedField")]),
        ("NamedField", None, vec![N("IdentOrUnderscore"), T(Colon), N("IdentOrTerminalIdent")]),
        ("TupleFieldset", None, vec![T(LParen), N("TupleFields"), T(RParen)]),
        ("TupleFields", Some("One"), vec![N("TupleField")]),
        ("TupleFields", Some("Cons"), vec![N("TupleFields"), N("TupleField")]),
        ("TupleField", Some("Used"), vec![N("IdentOrTerminalIdent")]),
        ("TupleField", Some("Skipped"), vec![T(Underscore), T(Colon), N("IdentOrTerminalIdent")]),
        ("OptEnumVariants", Some("Nil"), vec![]),
        ("OptEnumVariants", Some("Cons"), vec![N("OptEnumVariants"), N("EnumVariant")]),
        ("EnumVariant", None, vec![T(Ident), N("Fieldset")]),
        ("OptTerminalEnumVariants", Some("Nil"), vec![]),
        ("OptTerminalEnumVariants", Some("Cons"), vec![N("OptTerminalEnumVariants"), N("TerminalEnumVariant")]),
        ("TerminalEnumVariant", None, vec![T(TerminalIdent), T(Colon), N("Type")]),
        ("Type", Some("Unit"), vec![T(LParen), T(RParen)]),
        ("Type", Some("Path"), vec![N("Path")]),
        ("Type", Some("Complex"), vec![N("ComplexType")]),
        ("Path", Some("One"), vec![T(Ident)]),
        ("Path", Some("Cons"), vec![N("Path"), T(DoubleColon), T(Ident)]),
        ("ComplexType", None, vec![N("Path"), T(LAngle), N("CommaSeparatedTypes"), T(RAngle)]),
        ("CommaSeparatedTypes", Some("One"), vec![N("Type")]),
        ("CommaSeparatedTypes", Some("Cons"), vec![N("CommaSeparatedTypes"), T(Comma), N("Type")]),
        ("IdentOrUnderscore", Some("Ident"), vec![T(Ident)]),
        ("IdentOrUnderscore", Some("Underscore"), vec![T(Underscore)]),
        ("IdentOrTerminalIdent", Some("Ident"), vec![T(Ident)]),
        ("IdentOrTerminalIdent", Some("Terminal"), vec![T(TerminalIdent)]),
    ];
    let nt_index = |name: &str| nts.iter().position(|n| *n == name).unwrap_or_else(|| panic!("R-kiki: unknown nonterminal {name}")) as u8;
    let mut prods = vec![];
    let mut constructors = vec![];
    for (ty, variant, rhs) in table {
        let rhs: Vec<Sym> = rhs
            .iter()
            .map(|s| match s {
                N(n) => Sym::N(nt_index(n)),
                T(k) => Sym::T(k.index() as u8),
            })
            .collect();
        prods.push((nt_index(ty), rhs));
        constructors.push((ty, variant));
    }
    RKiki {
        g: Grammar { n: nts.len(), t: 17, prods },
        nonterminals: nts,
        terminals: vec!["Underscore", "Ident", "TerminalIdent", "OuterAttribute", "StartKw", "StructKw", "EnumKw", "TerminalKw", "Colon", "DoubleColon", "Comma", "LParen", "RParen", "LCurly", "RCurly", "LAngle", "RAngle"],
        constructors,
    }
}
