//! C09 — files are accepted exactly per the Kiki grammar; parse errors are exact.
//! Explores the input trie of kiki's own front-end parser: DFS over token-kind sequences, extending
//! only viable prefixes (Earley over R-kiki); every node is rendered to text and given to `generate`.
//! Structural complement: the tables in the checked-in parser.rs are isomorphic to the reference
//! LALR(1) tables of R-kiki.

use crate::common::*;
use crate::gramsweep::{bind, isomorphism, Acc, Case};
use crate::refgram::*;
use crate::reflex::{rlex, Kind, KINDS};
use crate::refkiki::rkiki;
use crate::scopes::{Names, Presentation, Rendered};
use rayon::prelude::*;
use serde_json::{json, Value};

fn lexeme(kind: &Kind, v: u64) -> &'static str {
    let alt = v % 2 == 1;
    match kind {
        Kind::Underscore => "_",
        Kind::Ident => {
            if alt {
                "Bcd_9"
            } else {
                "A"
            }
        }
        Kind::TerminalIdent => {
            if alt {
                "$Tok_2"
            } else {
                "$T"
            }
        }
        // the only token kind that can contain non-ASCII text
        Kind::Attr => match v % 3 {
            0 => "#[a]",
            1 => "#[derive(Debug, Clone)]",
            _ => "#[doc = \"é€😀\"]",
        },
        Kind::StartKw => "start",
        Kind::StructKw => "struct",
        Kind::EnumKw => "enum",
        Kind::TerminalKw => "terminal",
        Kind::Colon => ":",
        Kind::DoubleColon => "::",
        Kind::Comma => ",",
        Kind::LParen => "(",
        Kind::RParen => ")",
        Kind::LCurly => "{",
        Kind::RCurly => "}",
        Kind::LAngle => "<",
        Kind::RAngle => ">",
    }
}

fn wordish(k: &Kind) -> bool {
    matches!(k, Kind::Underscore | Kind::Ident | Kind::TerminalIdent | Kind::StartKw | Kind::StructKw | Kind::EnumKw | Kind::TerminalKw)
}

fn may_touch(a: &Kind, b: &Kind) -> bool {
    if wordish(a) && wordish(b) && *b != Kind::TerminalIdent {
        return false;
    }
    if *a == Kind::Colon && matches!(b, Kind::Colon | Kind::DoubleColon) {
        return false;
    }
    true
}

const SEPARATORS: [&str; 6] = [" ", "\n", "", "  ", "\t", " // c\u{e9}\n"];

/// Renders a token-kind sequence as source text; returns the text and the byte span of every token.
pub fn render_tokens(kinds: &[u8], variant: u64) -> (String, Vec<(usize, usize)>) {
    let mut s = String::new();
    let mut spans = vec![];
    match variant % 3 {
        1 => s.push('\n'),
        2 => s.push_str("// lead\r\n"),
        _ => {}
    }
    for (i, k) in kinds.iter().enumerate() {
        let kind = &KINDS[*k as usize];
        if i > 0 {
            let prev = &KINDS[kinds[i - 1] as usize];
            let mut sep = SEPARATORS[((variant / 3 + i as u64 * 5) % SEPARATORS.len() as u64) as usize];
            if sep.is_empty() && !may_touch(prev, kind) {
                sep = " ";
            }
            // an attribute must end its line only if a `//` comment follows? no: comments are fine after attributes
            s.push_str(sep);
        }
        let lx = lexeme(kind, variant / 7 + i as u64);
        spans.push((s.len(), s.len() + lx.len()));
        s.push_str(lx);
    }
    match (variant / 11) % 4 {
        1 => s.push('\n'),
        2 => s.push_str(" // end without newline"),
        3 => s.push_str("\r\n\t"),
        _ => {}
    }
    (s, spans)
}

#[derive(Debug, Clone, PartialEq, Eq)]
pub enum Expect {
    /// the sequence is a sentence: anything but a lexical or parse error
    PassesFrontEnd,
    /// proper prefix of a sentence: Parse(len, "", len)
    EndOfInput,
    /// the token at this index cannot continue any valid file
    BadToken(usize),
}

fn observe(src: &str) -> Result<Result<(), kiki::KikiErr>, String> {
    catch(|| kiki::generate(src).map(|_| ()))
}

/// Checks one rendered token sequence against the expectation. Returns a finding description.
pub fn check_text(src: &str, spans: &[(usize, usize)], expect: &Expect) -> Option<(String, Value, Value)> {
    let got = observe(src);
    let (want_desc, ok): (String, bool) = match expect {
        Expect::PassesFrontEnd => ("neither a lexical nor a parse error (the token sequence is a sentence of the Kiki grammar)".to_string(), matches!(&got, Ok(Ok(())) | Ok(Err(_))) && !matches!(&got, Ok(Err(kiki::KikiErr::Lex(..))) | Ok(Err(kiki::KikiErr::Parse(..))))),
        Expect::EndOfInput => {
            let n = src.len();
            (format!("Parse({n}, \"\", {n}): the file stops too early"), matches!(&got, Ok(Err(kiki::KikiErr::Parse(a, t, b))) if a.0 == n && b.0 == n && t.is_empty()))
        }
        Expect::BadToken(i) => {
            let (a, b) = spans[*i];
            (format!("Parse({a}, {:?}, {b}): token {i} cannot continue any valid file", &src[a..b]), matches!(&got, Ok(Err(kiki::KikiErr::Parse(x, t, y))) if x.0 == a && y.0 == b && t == &src[a..b]))
        }
    };
    if ok {
        return None;
    }
    let observed = match &got {
        Ok(Ok(())) => "Ok".to_string(),
        Ok(Err(e)) => format!("{e:?}").chars().take(300).collect(),
        Err(p) => format!("panic: {}", normalize_panic(p)),
    };
    Some((format!("front end disagrees with the Kiki grammar on {src:?}: expected {want_desc}, got {observed}"), json!(want_desc), json!(observed)))
}

struct Dfs<'a> {
    a: &'a Analysis<'a>,
    depth: usize,
    acc: Acc,
    counter: u64,
    /// totality mode (C07): every rendered text goes to this sink instead of the C09 oracle
    sink: Option<&'a mut dyn FnMut(&str)>,
}

impl<'a> Dfs<'a> {
    fn case_json(src: &str, kinds: &[u8], expect: &Expect) -> Value {
        json!({"source": src, "token_kinds": kinds.iter().map(|k| format!("{:?}", KINDS[*k as usize])).collect::<Vec<_>>(), "expect": format!("{expect:?}")})
    }

    fn check(&mut self, kinds: &[u8], expect: Expect) {
        self.counter += 1;
        let variant = self.counter.wrapping_mul(2654435761) >> 3;
        let (src, spans) = render_tokens(kinds, variant);
        if let Some(sink) = self.sink.as_mut() {
            sink(&src);
            return;
        }
        // self-check of the rendering: R-lex must see exactly these tokens
        match rlex(&src) {
            Ok(toks) if toks.len() == kinds.len() && toks.iter().zip(kinds).all(|(t, k)| t.kind == KINDS[*k as usize]) && toks.iter().zip(&spans).all(|(t, s)| (t.start, t.end) == *s) => {}
            other => {
                self.acc.self_check_errors.push(format!("reference self-check: rendering {src:?} of {kinds:?} does not lex back: {other:?}"));
                return;
            }
        }
        // second reference: the recursive-descent parser must agree with Earley
        if let Ok(toks) = rlex(&src) {
            let rd = crate::reffront::parse_tokens(&src, &toks);
            let agrees = match (&rd, &expect) {
                (Ok(_), Expect::PassesFrontEnd) | (Err(None), Expect::EndOfInput) => true,
                (Err(Some(i)), Expect::BadToken(j)) => i == j,
                _ => false,
            };
            if !agrees {
                self.acc.self_check_errors.push(format!("reference self-check: Earley says {expect:?}, the recursive-descent reference says {:?} on {src:?}", rd.map(|_| ())));
                return;
            }
        }
        self.acc.inc("texts given to generate");
        match &expect {
            Expect::PassesFrontEnd => self.acc.inc("sentences"),
            Expect::EndOfInput => self.acc.inc("proper prefixes"),
            Expect::BadToken(_) => self.acc.inc("sequences with a first bad token"),
        }
        if let Some((what, e, o)) = check_text(&src, &spans, &expect) {
            self.acc.finding(Finding::new("front_end_case", Self::case_json(&src, kinds, &expect), what, e, o));
        } else if self.counter % 50_000 == 1 {
            self.acc.samples.push(Self::case_json(&src, kinds, &expect));
        }
    }

    fn dfs(&mut self, e: &mut Earley<'a>, kinds: &mut Vec<u8>) {
        self.acc.inc("viable prefixes (trie nodes)");
        let expect = if e.accepts() { Expect::PassesFrontEnd } else { Expect::EndOfInput };
        self.check(kinds, expect);
        for k in 0..17u8 {
            self.acc.inc("token feeds");
            if e.push(k) {
                kinds.push(k);
                if kinds.len() <= self.depth {
                    self.dfs(e, kinds);
                } else {
                    self.acc.inc("viable prefixes at the depth bound (not expanded)");
                }
                kinds.pop();
                e.pop();
            } else {
                kinds.push(k);
                let at = kinds.len() - 1;
                self.check(kinds, Expect::BadToken(at));
                kinds.pop();
            }
        }
    }
}

/// The C09 oracle for an arbitrary text (any length): R-lex, then the recursive-descent reference (which the
/// exploration cross-checks against Earley on every explored sequence) says which token, if any, is the
/// first that cannot continue a valid file. Texts that do not lex are C08's.
pub fn check_any_text(src: &str, acc: &mut Acc) -> Option<Finding> {
    let toks = rlex(src).ok()?;
    let spans: Vec<(usize, usize)> = toks.iter().map(|t| (t.start, t.end)).collect();
    let expect = match crate::reffront::parse_tokens(src, &toks) {
        Ok(_) => Expect::PassesFrontEnd,
        Err(None) => Expect::EndOfInput,
        Err(Some(i)) => Expect::BadToken(i),
    };
    acc.inc("texts given to generate");
    acc.inc("scale probes (short texts behind a large prefix)");
    let (what, e, o) = check_text(src, &spans, &expect)?;
    let shown: String = if src.len() > 400 { format!("{} ... ({} bytes) ... {}", src.chars().take(60).collect::<String>(), src.len(), src.chars().rev().take(120).collect::<String>().chars().rev().collect::<String>()) } else { src.to_string() };
    let what = if src.len() > 400 { format!("front end disagrees with the Kiki grammar on a text of {} bytes ({shown:?}): expected {}, got {}", src.len(), e, o) } else { what };
    Some(Finding::new("front_end_text", json!({"source": src}), what, e, o))
}

/// Prefixes that move a short text beyond byte 255 / 65535, beyond token 255 / 65535, beyond line 255 / 65535.
pub fn scale_prefixes() -> Vec<String> {
    let mut v = vec![];
    for n in [255usize, 256, 65_535, 65_536] {
        v.push(" ".repeat(n));
    }
    v.push("// c\n".repeat(60));
    v.push("// c\n".repeat(14_000));
    v.push("\n".repeat(70_000));
    for k in [130usize, 33_000] {
        v.push((0..k).map(|i| format!("struct Q{i}\n")).collect());
    }
    for n in [255usize, 256, 65_536] {
        v.push(format!("struct {}\n", "A".repeat(n)));
        v.push(format!("#[{}]\n", "a".repeat(n)));
    }
    v
}

pub const UNIT_LEN: usize = 6;

/// The viable prefixes of exactly UNIT_LEN tokens (units of parallel work), in DFS order.
pub fn text_units() -> Vec<Vec<u8>> {
    let rk = rkiki();
    let a = Analysis::new(&rk.g);
    fn collect<'a>(e: &mut Earley<'a>, kinds: &mut Vec<u8>, want: usize, out: &mut Vec<Vec<u8>>) {
        if kinds.len() == want {
            out.push(kinds.clone());
            return;
        }
        for k in 0..17u8 {
            if e.push(k) {
                kinds.push(k);
                collect(e, kinds, want, out);
                kinds.pop();
                e.pop();
            }
        }
    }
    let mut units = vec![];
    let mut e = Earley::new(&a);
    collect(&mut e, &mut vec![], UNIT_LEN, &mut units);
    units
}

/// Totality mode: calls `f` on every text the C09 exploration renders below `unit`
/// (`None`: the shallow part above the units), to the given depth.
pub fn for_each_text(depth: usize, unit: Option<(usize, &[u8])>, f: &mut dyn FnMut(&str)) {
    let rk = rkiki();
    let a = Analysis::new(&rk.g);
    let mut e = Earley::new(&a);
    match unit {
        None => {
            let mut d = Dfs { a: &a, depth: UNIT_LEN - 1, acc: Acc::default(), counter: 0, sink: Some(f) };
            d.dfs(&mut e, &mut vec![]);
        }
        Some((ui, u)) => {
            for k in u {
                assert!(e.push(*k));
            }
            let mut d = Dfs { a: &a, depth, acc: Acc::default(), counter: (ui as u64) << 36, sink: Some(f) };
            let mut kinds = u.to_vec();
            d.dfs(&mut e, &mut kinds);
        }
    }
}

/// Tables of the checked-in parser.rs vs the reference LALR(1) tables of R-kiki.
pub fn parser_rs_isomorphism() -> Result<(usize, usize), String> {
    let rk = rkiki();
    let path = repo().join("kiki/src/parser.rs");
    let text = std::fs::read_to_string(&path).map_err(|e| format!("cannot read {}: {e}", path.display()))?;
    let names = Names {
        nonterminals: rk.nonterminals.iter().map(|s| s.to_string()).collect(),
        terminals: rk.terminals.iter().map(|s| s.to_string()).collect(),
        terminal_enum: "Token".into(),
        constructors: rk.constructors.iter().map(|(t, v)| (t.to_string(), v.map(|x| x.to_string()))).collect(),
        fields: vec![],
    };
    let case = Case { pres: Presentation::plain(&rk.g), rendered: Rendered { source: String::new(), names }, g: rk.g.clone() };
    let b = bind(&case, &text).map_err(|e| format!("unreadable:{e}"))?;
    let rf = reference(&rk.g)?;
    if rf.lalr_tables.has_conflict() {
        return Err("reference self-check: R-kiki is not LALR(1)".into());
    }
    isomorphism(&case, &b, &rf.lalr_tables)
}

pub fn run(ctx: &Ctx) -> Outcome {
    let mut out = Outcome::new("model_checking");
    let depth = ctx.tier.pick(15usize, 18usize);
    let rk = rkiki();
    let a = Analysis::new(&rk.g);
    if !a.all_productive() {
        machinery_error("C09: R-kiki has unproductive nonterminals");
    }
    // units: viable prefixes of length 3; shallower nodes are handled by the sequential part
    let unit_len = UNIT_LEN;
    let mut units: Vec<Vec<u8>> = vec![];
    let mut top = Dfs { a: &a, depth: unit_len - 1, acc: Acc::default(), counter: 0, sink: None };
    {
        let mut e = Earley::new(&a);
        let mut kinds = vec![];
        top.dfs(&mut e, &mut kinds);
        // collect viable prefixes of exactly unit_len tokens
        fn collect<'a>(e: &mut Earley<'a>, kinds: &mut Vec<u8>, want: usize, out: &mut Vec<Vec<u8>>) {
            if kinds.len() == want {
                out.push(kinds.clone());
                return;
            }
            for k in 0..17u8 {
                if e.push(k) {
                    kinds.push(k);
                    collect(e, kinds, want, out);
                    kinds.pop();
                    e.pop();
                }
            }
        }
        let mut e = Earley::new(&a);
        collect(&mut e, &mut vec![], unit_len, &mut units);
    }
    // the sequential part counted prefixes of length unit_len as "at the depth bound": they are expanded below
    let t0 = std::time::Instant::now();
    let budget = ctx.tier.pick(600.0, 3000.0);
    // split units one level further for load balance
    let mut fine: Vec<Vec<u8>> = vec![];
    for u in &units {
        let mut e = Earley::new(&a);
        for k in u {
            e.push(*k);
        }
        fine.push(u.clone());
        let _ = e;
    }
    let accs: Vec<Acc> = fine
        .par_iter()
        .enumerate()
        .map(|(ui, u)| {
            let mut d = Dfs { a: &a, depth, acc: Acc::default(), counter: (ui as u64) << 36, sink: None };
            if t0.elapsed().as_secs_f64() > budget {
                d.acc.inc("units skipped by the wall-clock budget");
                return d.acc;
            }
            let mut e = Earley::new(&a);
            for k in u {
                assert!(e.push(*k));
            }
            let mut kinds = u.clone();
            d.dfs(&mut e, &mut kinds);
            d.acc
        })
        .collect();
    let mut acc = top.acc;
    // the top part reported the unit roots as unexpanded; they were expanded by the units
    let unexpanded_top = acc.get("viable prefixes at the depth bound (not expanded)");
    acc.counters.remove("viable prefixes at the depth bound (not expanded)");
    let _ = unexpanded_top;
    for a2 in accs {
        acc.merge(a2);
    }
    if let Some(e) = acc.self_check_errors.iter().find(|e| e.starts_with("reference self-check")) {
        machinery_error(format!("C09: {e}"));
    }
    // scale: every short text of the exploration (the sequential top part, depth < UNIT_LEN) behind every large prefix
    {
        let mut bases: Vec<String> = vec![];
        for_each_text(4, None, &mut |s| bases.push(s.to_string()));
        bases.sort();
        bases.dedup();
        let prefixes = scale_prefixes();
        // (generate recurses once per declaration: 33 000 declarations need more than the 2 MiB of a default
        // worker stack - stack depth is C07's subject, not C09's, so these probes run on 64 MiB stacks)
        let pool = rayon::ThreadPoolBuilder::new().stack_size(64 << 20).build().unwrap_or_else(|e| machinery_error(format!("C09: cannot build a thread pool: {e}")));
        let accs: Vec<Acc> = pool.install(|| {
            bases
                .par_iter()
                .map(|b| {
                    let mut a = Acc::default();
                    for p in &prefixes {
                        if let Some(f) = check_any_text(&format!("{p}{b}"), &mut a) {
                            a.finding(f);
                        }
                    }
                    // touching tokens: each gap removed where the token sequence stays the same (`$a$b`, `a:b`, `)(`)
                    if let Ok(toks) = rlex(b) {
                        for w in toks.windows(2) {
                            if w[0].end < w[1].start {
                                let text = format!("{}{}", &b[..w[0].end], &b[w[1].start..]);
                                if let Ok(t2) = rlex(&text) {
                                    if t2.len() == toks.len() && t2.iter().zip(&toks).all(|(x, y)| x.kind == y.kind && x.text(&text) == y.text(b)) {
                                        if let Some(f) = check_any_text(&text, &mut a) {
                                            a.finding(f);
                                        }
                                    }
                                }
                            }
                        }
                    }
                    // what FOLLOWS the text (in the exploration the first bad token is always the last token): a token
                    // of every kind appended, touching the text where that leaves the tokens as they are, else after a blank
                    if let Ok(toks) = rlex(b) {
                        for suffix in ["$U", "x", "_", ":", "::", ",", "(", ")", "{", "}", "<", ">", "#[a]", "start"] {
                            for gap in ["", " "] {
                                let text = format!("{b}{gap}{suffix}");
                                if let Ok(t2) = rlex(&text) {
                                    if t2.len() == toks.len() + 1 && t2.iter().zip(&toks).all(|(x, y)| x.kind == y.kind && x.text(&text) == y.text(b)) && t2[toks.len()].text(&text) == suffix {
                                        if let Some(f) = check_any_text(&text, &mut a) {
                                            a.finding(f);
                                        }
                                        break; // the touching form if it exists, else the separated one
                                    }
                                }
                            }
                        }
                    }
                    // one token of variable length made huge (its own length crosses 2^8 / 2^16)
                    if let Ok(toks) = rlex(b) {
                        if toks.len() <= 4 {
                            for t in &toks {
                                for n in [255usize, 256, 257, 65_535, 65_536, 65_537] {
                                    let big = match t.kind {
                                        Kind::Ident => format!("{}{}", &b[t.start..t.start + 1], "a".repeat(n - 1)),
                                        Kind::TerminalIdent => format!("${}{}", &b[t.start + 1..t.start + 2], "a".repeat(n - 2)),
                                        Kind::Attr => format!("#[{}]", "a".repeat(n - 3)),
                                        _ => continue,
                                    };
                                    let text = format!("{}{}{}", &b[..t.start], big, &b[t.end..]);
                                    if let Some(f) = check_any_text(&text, &mut a) {
                                        a.finding(f);
                                    }
                                }
                            }
                        }
                    }
                    a
                })
                .collect()
        });
        for a2 in accs {
            acc.merge(a2);
        }
        acc.add("scale probe base texts", bases.len() as u64);
    }
    // structural complement
    let iso = parser_rs_isomorphism();
    let mut iso_note = json!(null);
    match &iso {
        Ok((states, cells)) => iso_note = json!({"isomorphic": true, "states": states, "cells_compared": cells}),
        Err(e) if e.starts_with("unreadable:") => iso_note = json!({"isomorphic": null, "note": format!("parser.rs could not be read by the extractor ({e}); the behavioural exploration decides alone")}),
        Err(e) if e.starts_with("reference self-check") => machinery_error(format!("C09: {e}")),
        Err(e) => {
            out.push(Finding::new("parser_tables", json!({"file": "kiki/src/parser.rs"}), format!("the tables of the checked-in front-end parser are not the LALR(1) tables of the Kiki grammar: {e}"), json!("isomorphic to the reference LALR(1) tables"), json!(e)));
        }
    }
    let capped = acc.get("units skipped by the wall-clock budget") > 0;
    out.cov("states", json!(acc.get("viable prefixes (trie nodes)").max(1)));
    out.cov("transitions", json!(acc.get("token feeds").max(1)));
    out.cov("traces_validated_against_impl", json!(acc.get("texts given to generate")));
    out.cov("exhaustive", json!(!capped));
    out.cov("scopes", json!([{"name": format!("token-kind sequences, viable prefixes to depth {depth} plus all one-token extensions"), "size": acc.get("texts given to generate"), "completed": !capped, "exhaustive": !capped, "capped_by": if capped { json!("wall-clock budget") } else { Value::Null }}]));
    out.cov("histogram", json!(acc.counters));
    out.cov("parser_rs_table_isomorphism", iso_note);
    out.cov("samples", json!(if acc.samples.is_empty() { vec![json!("none")] } else { acc.samples.iter().take(6).cloned().collect::<Vec<_>>() }));
    out.cov("explanation", json!("states = viable token-kind prefixes (nodes of the front-end parser's input trie), transitions = token kinds fed to the Earley recogniser of the hand-transcribed Kiki grammar; every node and every non-viable one-token extension is rendered to text (two lexeme lengths per kind, rotating separators and comments) and executed through the real generate: traces_validated_against_impl counts those executions"));
    out.violating_cases += acc.violating;
    out.findings.extend(acc.findings);
    out.assumptions = vec!["R-kiki: the Kiki grammar transcribed by hand from parser.kiki / examples/kiki.kiki (42 productions)".into(), "token sequences longer than the depth bound rest on the table isomorphism (structural complement) and the LR theorem".into()];
    out
}

pub fn replay(kind: &str, case: &Value) -> Option<Vec<Finding>> {
    match kind {
        "front_end_case" => {
            let src = case["source"].as_str()?;
            let toks = rlex(src).ok()?;
            let spans: Vec<(usize, usize)> = toks.iter().map(|t| (t.start, t.end)).collect();
            let kinds: Vec<u8> = toks.iter().map(|t| t.kind.index() as u8).collect();
            let rk = rkiki();
            let a = Analysis::new(&rk.g);
            let expect = match earley_word(&a, &kinds) {
                Ok(true) => Expect::PassesFrontEnd,
                Ok(false) => Expect::EndOfInput,
                Err(i) => Expect::BadToken(i),
            };
            Some(match check_text(src, &spans, &expect) {
                Some((what, e, o)) => vec![Finding::new("front_end_case", case.clone(), what, e, o)],
                None => vec![],
            })
        }
        "front_end_text" => {
            let src = case["source"].as_str()?;
            let mut a = Acc::default();
            Some(check_any_text(src, &mut a).into_iter().collect())
        }
        "parser_tables" => Some(match parser_rs_isomorphism() {
            Err(e) if !e.starts_with("unreadable:") => vec![Finding::new("parser_tables", case.clone(), format!("parser.rs tables differ: {e}"), json!("isomorphic"), json!(e))],
            _ => vec![],
        }),
        _ => None,
    }
}
