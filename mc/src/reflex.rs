//! R-lex: a one-pass reference lexer written from USER_GUIDE.md and the statement of C08
//! (DESIGN.md appendix B). Shares nothing with kiki's tokenizer.

#[derive(Clone, Debug, PartialEq, Eq, Hash, PartialOrd, Ord)]
pub enum Kind {
    Underscore,
    Ident,
    TerminalIdent,
    Attr,
    StartKw,
    StructKw,
    EnumKw,
    TerminalKw,
    Colon,
    DoubleColon,
    Comma,
    LParen,
    RParen,
    LCurly,
    RCurly,
    LAngle,
    RAngle,
}

pub const KINDS: [Kind; 17] = [
    Kind::Underscore,
    Kind::Ident,
    Kind::TerminalIdent,
    Kind::Attr,
    Kind::StartKw,
    Kind::StructKw,
    Kind::EnumKw,
    Kind::TerminalKw,
    Kind::Colon,
    Kind::DoubleColon,
    Kind::Comma,
    Kind::LParen,
    Kind::RParen,
    Kind::LCurly,
    Kind::RCurly,
    Kind::LAngle,
    Kind::RAngle,
];

impl Kind {
    pub fn index(&self) -> usize {
        KINDS.iter().position(|k| k == self).unwrap()
    }
}

#[derive(Clone, Debug, PartialEq, Eq)]
pub struct RToken {
    pub kind: Kind,
    /// byte span in the source (for a terminal identifier the span includes the `$`)
    pub start: usize,
    pub end: usize,
}

impl RToken {
    pub fn text<'a>(&self, src: &'a str) -> &'a str {
        &src[self.start..self.end]
    }
}

/// Lexical error: byte index and the offending character (None = end of input).
pub type LexErr = (usize, Option<char>);

fn id_start(c: char) -> bool {
    c.is_ascii_alphabetic() || c == '_'
}
fn id_cont(c: char) -> bool {
    c.is_ascii_alphanumeric() || c == '_'
}

fn reserved(s: &str) -> Option<Kind> {
    match s {
        "_" => Some(Kind::Underscore),
        "start" => Some(Kind::StartKw),
        "struct" => Some(Kind::StructKw),
        "enum" => Some(Kind::EnumKw),
        "terminal" => Some(Kind::TerminalKw),
        _ => None,
    }
}

pub fn rlex(src: &str) -> Result<Vec<RToken>, LexErr> {
    let cs: Vec<(usize, char)> = src.char_indices().collect();
    let n = cs.len();
    let off = |i: usize| -> usize { if i < n { cs[i].0 } else { src.len() } };
    let mut out = vec![];
    let mut i = 0;
    while i < n {
        let c = cs[i].1;
        if c.is_whitespace() {
            i += 1;
            continue;
        }
        if c == '/' {
            if i + 1 < n && cs[i + 1].1 == '/' {
                while i < n && cs[i].1 != '\n' {
                    i += 1;
                }
                continue;
            }
            return Err((off(i), Some('/')));
        }
        if id_start(c) {
            let mut j = i + 1;
            while j < n && id_cont(cs[j].1) {
                j += 1;
            }
            let text = &src[off(i)..off(j)];
            out.push(RToken { kind: reserved(text).unwrap_or(Kind::Ident), start: off(i), end: off(j) });
            i = j;
            continue;
        }
        if c == '$' {
            if i + 1 < n && id_start(cs[i + 1].1) {
                let mut j = i + 2;
                while j < n && id_cont(cs[j].1) {
                    j += 1;
                }
                if reserved(&src[off(i + 1)..off(j)]).is_some() {
                    return Err((off(j), if j < n { Some(cs[j].1) } else { None }));
                }
                out.push(RToken { kind: Kind::TerminalIdent, start: off(i), end: off(j) });
                i = j;
                continue;
            }
            return Err((off(i), Some('$')));
        }
        if c == ':' {
            if i + 1 < n && cs[i + 1].1 == ':' {
                out.push(RToken { kind: Kind::DoubleColon, start: off(i), end: off(i + 2) });
                i += 2;
            } else {
                out.push(RToken { kind: Kind::Colon, start: off(i), end: off(i + 1) });
                i += 1;
            }
            continue;
        }
        if c == '#' {
            if i + 1 < n && cs[i + 1].1 == '[' {
                let mut stack = vec!['['];
                let mut j = i + 2;
                loop {
                    if j >= n {
                        return Err((src.len(), None));
                    }
                    let d = cs[j].1;
                    if d == '\n' {
                        return Err((off(j), Some('\n')));
                    }
                    match d {
                        '(' | '[' | '{' => stack.push(d),
                        ')' | ']' | '}' => {
                            let open = stack.pop().unwrap();
                            let want = match open {
                                '(' => ')',
                                '[' => ']',
                                _ => '}',
                            };
                            if want != d {
                                return Err((off(j), Some(d)));
                            }
                            if stack.is_empty() {
                                j += 1;
                                break;
                            }
                        }
                        _ => {}
                    }
                    j += 1;
                }
                out.push(RToken { kind: Kind::Attr, start: off(i), end: off(j) });
                i = j;
                continue;
            }
            return Err((off(i), Some('#')));
        }
        let kind = match c {
            ',' => Some(Kind::Comma),
            '(' => Some(Kind::LParen),
            ')' => Some(Kind::RParen),
            '{' => Some(Kind::LCurly),
            '}' => Some(Kind::RCurly),
            '<' => Some(Kind::LAngle),
            '>' => Some(Kind::RAngle),
            _ => None,
        };
        match kind {
            Some(k) => {
                out.push(RToken { kind: k, start: off(i), end: off(i + 1) });
                i += 1;
            }
            None => return Err((off(i), Some(c))),
        }
    }
    Ok(out)
}

/// kiki's token, reduced to what the reference describes: (kind, text, start byte).
pub fn describe_kiki_token(t: &kiki::data::token::Token) -> (Kind, String, usize) {
    use kiki::data::token::Token as K;
    match t {
        K::Underscore(p) => (Kind::Underscore, "_".into(), p.0),
        K::Ident(i) => (Kind::Ident, i.name.clone(), i.position.0),
        K::TerminalIdent(i) => (Kind::TerminalIdent, format!("${}", i.name.raw()), i.dollarless_position.0.wrapping_sub(1)),
        K::OuterAttribute(a) => (Kind::Attr, a.src.clone(), a.position.0),
        K::StartKw(p) => (Kind::StartKw, "start".into(), p.0),
        K::StructKw(p) => (Kind::StructKw, "struct".into(), p.0),
        K::EnumKw(p) => (Kind::EnumKw, "enum".into(), p.0),
        K::TerminalKw(p) => (Kind::TerminalKw, "terminal".into(), p.0),
        K::Colon(p) => (Kind::Colon, ":".into(), p.0),
        K::DoubleColon(p) => (Kind::DoubleColon, "::".into(), p.0),
        K::Comma(p) => (Kind::Comma, ",".into(), p.0),
        K::LParen(p) => (Kind::LParen, "(".into(), p.0),
        K::RParen(p) => (Kind::RParen, ")".into(), p.0),
        K::LCurly(p) => (Kind::LCurly, "{".into(), p.0),
        K::RCurly(p) => (Kind::RCurly, "}".into(), p.0),
        K::LAngle(p) => (Kind::LAngle, "<".into(), p.0),
        K::RAngle(p) => (Kind::RAngle, ">".into(), p.0),
    }
}

/// The 30-symbol alphabet of C07(a)/C08 (all five reserved words: `_`, start, enum, struct, terminal): one representative per lexer character class and UTF-8 length.
pub const ALPHABET: [&str; 30] = ["a", "Z", "_", "9", "$", ":", ",", "(", ")", "{", "}", "<", ">", "[", "]", "#", "/", " ", "\n", "\r", "\u{2003}", "é", "€", "😀", "-", "\"", "start", "enum", "struct", "terminal"];

/// Calls `f` on every string of at most `max_len` symbols over `alphabet` that starts with `prefix`.
pub fn for_each_string(alphabet: &[&str], max_len: usize, prefix: &[usize], f: &mut dyn FnMut(&str)) {
    fn rec(alphabet: &[&str], left: usize, buf: &mut String, f: &mut dyn FnMut(&str)) {
        f(buf);
        if left == 0 {
            return;
        }
        for s in alphabet {
            let l = buf.len();
            buf.push_str(s);
            rec(alphabet, left - 1, buf, f);
            buf.truncate(l);
        }
    }
    let mut buf = String::new();
    for p in prefix {
        buf.push_str(alphabet[*p]);
    }
    if prefix.len() > max_len {
        return;
    }
    rec(alphabet, max_len - prefix.len(), &mut buf, f);
}

/// Work units for a parallel sweep over all strings of at most `max_len` symbols: all prefixes shorter
/// than `unit_len` (each visited alone) and all prefixes of length `unit_len` (each with its whole subtree).
pub fn string_units(alphabet_len: usize, max_len: usize, unit_len: usize) -> Vec<(Vec<usize>, bool)> {
    let ul = unit_len.min(max_len);
    let mut out: Vec<(Vec<usize>, bool)> = vec![];
    let mut level: Vec<Vec<usize>> = vec![vec![]];
    for d in 0..=ul {
        for p in &level {
            out.push((p.clone(), d == ul));
        }
        if d < ul {
            let mut next = vec![];
            for p in &level {
                for a in 0..alphabet_len {
                    let mut x = p.clone();
                    x.push(a);
                    next.push(x);
                }
            }
            level = next;
        }
    }
    out
}
