//! C14 — generate is deterministic. Engine E5 permexplore: every iteration over a hash collection
//! (through the `kiki::verif_collections` seam) is a choice point; the explorer enumerates the
//! schedules of iteration orders within a deviation bound and demands a single observable outcome.

use crate::common::*;
use crate::gramsweep::Acc;
use kiki::verif_collections::{self as seam, Choice, Point};
use rayon::prelude::*;
use serde_json::{json, Value};

#[derive(Clone, Debug, PartialEq, Eq)]
pub struct Run {
    pub observation: String,
    pub trace: Vec<(String, usize)>,
}

pub fn run_with(src: &str, schedule: &[Choice]) -> Run {
    seam::install(schedule.to_vec());
    let r = catch(|| kiki::generate(src));
    let oracle = seam::uninstall();
    let observation = match r {
        Ok(Ok(s)) => format!("OK\n{}", s.0),
        Ok(Err(e)) => format!("ERR {e:?}"),
        Err(p) => format!("PANIC {}", normalize_panic(&p)),
    };
    let trace: Vec<(String, usize)> = oracle.map(|o| o.trace.into_iter().map(|p: Point| (p.site.to_string(), p.n)).collect()).unwrap_or_default();
    Run { observation, trace }
}

fn factorial(n: usize) -> Option<u64> {
    let mut f: u64 = 1;
    for i in 2..=n as u64 {
        f = f.checked_mul(i)?;
    }
    Some(f)
}

/// Alternatives to the identity at a choice point with n elements; `capped` if n! exceeds the cap.
pub fn alternatives(n: usize, cap: u64) -> (Vec<Choice>, bool) {
    match factorial(n) {
        Some(f) if f <= cap => ((1..f).map(Choice::Lehmer).collect(), false),
        _ => {
            let mut v: Vec<Choice> = (0..n - 1).map(Choice::SwapAdjacent).collect();
            v.push(Choice::Reverse);
            v.extend((1..n).map(Choice::Rotate));
            (v, true)
        }
    }
}

fn schedule_json(s: &[Choice]) -> Value {
    json!(s.iter().map(|c| format!("{c:?}")).collect::<Vec<_>>())
}

fn parse_choice(s: &str) -> Option<Choice> {
    let num = |s: &str| s.trim_end_matches(')').split('(').nth(1)?.parse::<u64>().ok();
    Some(if s == "Identity" {
        Choice::Identity
    } else if s == "Reverse" {
        Choice::Reverse
    } else if s.starts_with("Lehmer(") {
        Choice::Lehmer(num(s)?)
    } else if s.starts_with("SwapAdjacent(") {
        Choice::SwapAdjacent(num(s)? as usize)
    } else if s.starts_with("Rotate(") {
        Choice::Rotate(num(s)? as usize)
    } else {
        return None;
    })
}

fn first_difference(a: &str, b: &str) -> String {
    a.lines().zip(b.lines()).enumerate().find(|(_, (x, y))| x != y).map(|(i, (x, y))| format!("line {}: {:?} vs {:?}", i + 1, x.chars().take(160).collect::<String>(), y.chars().take(160).collect::<String>())).unwrap_or_else(|| "different length".into())
}

fn repeat_finding(src: &str, first: &str, second: &str) -> Finding {
    let d = first_difference(first, second);
    Finding::new(
        "repeat_case",
        json!({"source": src}),
        format!("two calls of generate on the same text in one process, under the same iteration orders, give different results ({d}) — source {:?}", src.chars().take(300).collect::<String>()),
        json!("the same bytes / the same error"),
        json!(d),
    )
}

/// A grammar in which every upper-case helper name of the emitted module is taken by the user.
pub fn all_helpers_source() -> String {
    "start S
struct S(State Node)
struct State($Eof)
struct Node(Action)
struct Action(RuleKind)
struct RuleKind(Quasiterminal)
struct Quasiterminal(QuasiterminalKind)
struct QuasiterminalKind(NonterminalKind)
struct NonterminalKind($ACTION_TABLE $GOTO_TABLE)
terminal Terminal {
    $Eof: ()
    $ACTION_TABLE: ()
    $GOTO_TABLE: ()
}
".to_string()
}

// ---------------------------------------------------------------------------------------------
// Histories: generate as an operation on the state of the process. A history is a sequence of calls made
// one after the other in ONE FRESH PROCESS (a child of this one); the observation of every call must equal
// the observation of the same text called alone in a fresh process. All histories of length 2 (thorough:
// and 3 over a smaller alphabet) over the history alphabet are run - the alphabet holds, for every helper
// name, grammars that take that name in every upper-case role, so every path that renames, counts or
// caches is both a possible cause and a possible victim.

pub fn history_alphabet(tier: Tier) -> Vec<String> {
    let mut v: Vec<String> = vec![all_helpers_source()];
    v.extend(crate::c05::chain_sources().into_iter().enumerate().filter(|(i, _)| i % 8 == 0).map(|(_, s)| s));
    let helpers = ["State", "Node", "Action", "RuleKind", "Eof", "Quasiterminal", "QuasiterminalKind", "NonterminalKind", "S", "ACTION_TABLE", "GOTO_TABLE", "Terminal", "Error"];
    let cs = crate::c05::carriers();
    for (ci, c) in cs.iter().enumerate().take(tier.pick(1, 3)) {
        for (role, kind) in crate::c05::roles(c) {
            if kind != crate::c05::RoleKind::Upper {
                continue;
            }
            for h in helpers {
                let mut pres = c.pres.clone();
                pres.names.insert(role.clone(), h.to_string());
                let src = crate::gramsweep::Case::new(c.g.clone(), pres).rendered.source;
                if ci == 0 || !v.contains(&src) {
                    v.push(src);
                }
            }
        }
    }
    // one input per kind of outcome: lexical, syntactic, validation and conflict errors, the empty text, large files
    for s in ["", "a`", "start", "start A
struct A
struct A
terminal T {}", "start B
struct A
terminal T {}", "start A
struct A(a)
terminal T {}", "start E
enum E { Add(E $Plus E) Id($Id) }
terminal Tok { $Plus: () $Id: () }
", "start S1
enum S1 { X1($A Aa $D) X2($B Bb $D) X3($A Bb $E) X4($B Aa $E) }
struct Aa($C)
struct Bb($C)
terminal Tok { $A: () $B: () $C: () $D: () $E: () }
"] {
        v.push(s.to_string());
    }
    v.extend(crate::corpus::repo_sources().into_iter().map(|(_, s)| s).filter(|s| s.len() < tier.pick(1200, 6000)));
    v.sort();
    v.dedup();
    v
}

fn observe(src: &str) -> String {
    match catch(|| kiki::generate(src)) {
        Ok(Ok(s)) => format!("OK\n{}", s.0),
        Ok(Err(e)) => format!("ERR {e:?}"),
        Err(p) => format!("PANIC {}", normalize_panic(&p)),
    }
}

/// Child process: `kiki-mc c14-history <alphabet.json> <i> <j> ...` - the calls are made in this order on the
/// main thread of this fresh process; one line per call: SHA-256 of the observation (`--full`: the observation).
pub fn child_history(args: &[String]) {
    let full = args.iter().any(|a| a == "--full");
    let args: Vec<&String> = args.iter().filter(|a| *a != "--full").collect();
    let alphabet: Vec<String> = std::fs::read_to_string(args[0]).ok().and_then(|t| serde_json::from_str(&t).ok()).unwrap_or_else(|| machinery_error("c14-history: unreadable alphabet file"));
    for a in &args[1..] {
        let i: usize = a.parse().unwrap_or_else(|_| machinery_error("c14-history: bad index"));
        let o = observe(&alphabet[i]);
        if full {
            println!("{}", serde_json::to_string(&o).unwrap());
        } else {
            println!("{}", crate::sha256::hex(o.as_bytes()));
        }
    }
}

fn run_history_child(alphabet_file: &std::path::Path, history: &[usize], full: bool) -> Vec<String> {
    let exe = std::env::current_exe().unwrap_or_else(|e| machinery_error(format!("current_exe: {e}")));
    let mut cmd = std::process::Command::new(&exe);
    cmd.arg("c14-history").arg(alphabet_file);
    if full {
        cmd.arg("--full");
    }
    for i in history {
        cmd.arg(i.to_string());
    }
    match cmd.output() {
        Ok(o) if o.status.success() => {
            let lines: Vec<String> = String::from_utf8_lossy(&o.stdout).lines().map(|l| l.to_string()).collect();
            if lines.len() != history.len() {
                machinery_error(format!("C14: a history child printed {} lines for {} calls", lines.len(), history.len()));
            }
            lines
        }
        Ok(o) => machinery_error(format!("C14: a history child failed ({:?}): {}", o.status, String::from_utf8_lossy(&o.stderr).chars().take(300).collect::<String>())),
        Err(e) => machinery_error(format!("C14: cannot start a history child: {e}")),
    }
}

fn history_finding(alphabet: &[String], history: &[usize], at: usize, alphabet_file: &std::path::Path) -> Finding {
    // the full observations, for the report
    let alone = run_history_child(alphabet_file, &[history[at]], true);
    let inside = run_history_child(alphabet_file, history, true);
    let d = first_difference(&serde_json::from_str::<String>(&alone[0]).unwrap_or_default(), &serde_json::from_str::<String>(&inside[at]).unwrap_or_default());
    Finding::new(
        "history_case",
        json!({"history": history.iter().map(|i| alphabet[*i].clone()).collect::<Vec<_>>(), "call": at}),
        format!("call {} of a history of {} calls of generate in one fresh process returns something else than the same text called alone in a fresh process ({d}) — the text is {:?}, the calls before it were on {:?}", at + 1, history.len(), alphabet[history[at]].chars().take(200).collect::<String>(), history[..at].iter().map(|i| alphabet[*i].chars().take(80).collect::<String>()).collect::<Vec<_>>()),
        json!("the same bytes / the same error as in a fresh process"),
        json!(d),
    )
}

pub struct HistoryStats {
    pub alphabet: usize,
    pub histories: u64,
    pub calls: u64,
    pub max_len: usize,
    pub triples_alphabet: usize,
}

pub fn run_histories(ctx: &Ctx, acc: &mut Acc) -> HistoryStats {
    let alphabet = history_alphabet(ctx.tier);
    let dir = ctx.root.join("scratch").join(format!("c14-histories-{}", std::process::id()));
    std::fs::create_dir_all(&dir).unwrap_or_else(|e| machinery_error(format!("C14: cannot create {}: {e}", dir.display())));
    let file = dir.join("alphabet.json");
    std::fs::write(&file, serde_json::to_string(&alphabet).unwrap()).unwrap_or_else(|e| machinery_error(format!("C14: cannot write the alphabet file: {e}")));
    let n = alphabet.len();
    // depth 1: the reference observation of every text (twice, in two fresh processes: these must agree already)
    let refs: Vec<(String, String)> = (0..n).into_par_iter().map(|i| (run_history_child(&file, &[i], false).remove(0), run_history_child(&file, &[i], false).remove(0))).collect();
    let mut findings = vec![];
    for (i, (a, b)) in refs.iter().enumerate() {
        if a != b {
            findings.push(Finding::new("fresh_process_case", json!({"source": alphabet[i]}), format!("generate gives different results for the same text in two fresh processes — {:?}", alphabet[i].chars().take(200).collect::<String>()), json!("identical results"), json!([a, b])));
        }
    }
    let mut histories: Vec<Vec<usize>> = vec![];
    for i in 0..n {
        for j in 0..n {
            histories.push(vec![i, j]);
        }
    }
    // depth 3 over the sub-alphabet of the inputs that had the most to rename, plus one of every error kind
    let mut sub: Vec<usize> = (0..n).filter(|i| alphabet[*i] == all_helpers_source() || alphabet[*i].len() < 12).collect();
    sub.extend((0..n).filter(|i| alphabet[*i].contains("struct State2\n") || alphabet[*i].contains("enum E { Add")).take(3));
    sub.extend((0..n).step_by((n / ctx.tier.pick(4, 16)).max(1)));
    sub.sort();
    sub.dedup();
    for a in &sub {
        for b in &sub {
            for c in &sub {
                histories.push(vec![*a, *b, *c]);
            }
        }
    }
    let results: Vec<Option<(usize, usize)>> = histories
        .par_iter()
        .enumerate()
        .map(|(hi, h)| {
            let got = run_history_child(&file, h, false);
            got.iter().enumerate().find(|(k, d)| **d != refs[h[*k]].0).map(|(k, _)| (hi, k))
        })
        .collect();
    let mut calls = 0u64;
    for h in &histories {
        calls += h.len() as u64;
    }
    for (hi, at) in results.into_iter().flatten() {
        if findings.len() < 40 {
            findings.push(history_finding(&alphabet, &histories[hi], at, &file));
        } else {
            acc.violating += 1;
        }
    }
    for f in findings {
        acc.finding(f);
    }
    let _ = std::fs::remove_dir_all(&dir);
    HistoryStats { alphabet: n, histories: histories.len() as u64 + 2 * n as u64, calls: calls + 2 * n as u64, max_len: 3, triples_alphabet: sub.len() }
}

pub struct Explored {
    pub executions: u64,
    pub choice_points_taken: u64,
    pub capped_points: u64,
    pub points: Vec<(String, usize)>,
}

/// Explores all schedules of `src` with at most `bound` non-identity choices.
pub fn explore(name: &str, src: &str, bound: usize, cap: u64, acc: &mut Acc) -> Explored {
    let base = run_with(src, &[]);
    let again = run_with(src, &[]);
    if base.observation != again.observation {
        // same text, same iteration orders, same process: whatever made the difference (a counter, a cache, an
        // address, the time) is state that generate must not depend on
        acc.finding(repeat_finding(src, &base.observation, &again.observation));
        // schedules cannot be compared with a baseline that is not one
        return Explored { executions: 2, choice_points_taken: 0, capped_points: 0, points: base.trace.clone() };
    } else if base != again {
        acc.self_check_errors.push(format!("uncontrolled nondeterminism: the identity schedule of {name} passed different choice points on two runs"));
    }
    let mut ex = Explored { executions: 2, choice_points_taken: 0, capped_points: 0, points: base.trace.clone() };
    // breadth of deviation: prefixes with d non-identity choices
    let mut frontier: Vec<(Vec<Choice>, Vec<(String, usize)>)> = vec![(vec![], base.trace.clone())];
    for _dev in 0..bound {
        let mut jobs: Vec<(Vec<Choice>, Vec<(String, usize)>)> = vec![];
        for (prefix, trace) in &frontier {
            for i in prefix.len()..trace.len() {
                let (alts, capped) = alternatives(trace[i].1, cap);
                if capped {
                    ex.capped_points += 1;
                }
                for a in alts {
                    let mut s = prefix.clone();
                    s.resize(i, Choice::Identity);
                    s.push(a);
                    jobs.push((s, trace[..=i].to_vec()));
                }
            }
        }
        let results: Vec<(Vec<Choice>, Run, bool)> = jobs
            .par_iter()
            .map(|(s, expect_prefix)| {
                let r = run_with(src, s);
                let prefix_ok = r.trace.len() >= expect_prefix.len() && r.trace[..expect_prefix.len()] == expect_prefix[..];
                (s.clone(), r, prefix_ok)
            })
            .collect();
        let mut next = vec![];
        for (s, r, prefix_ok) in results {
            ex.executions += 1;
            ex.choice_points_taken += s.len() as u64;
            if !prefix_ok {
                acc.self_check_errors.push(format!("uncontrolled nondeterminism: replaying a schedule prefix of {name} passed different choice points"));
                continue;
            }
            if r.observation != base.observation {
                let first_diff = base.observation.lines().zip(r.observation.lines()).enumerate().find(|(_, (a, b))| a != b).map(|(i, (a, b))| format!("line {}: {:?} vs {:?}", i + 1, a.chars().take(160).collect::<String>(), b.chars().take(160).collect::<String>())).unwrap_or_else(|| "different length".into());
                acc.finding(Finding::new(
                    "schedule_case",
                    json!({"source": src, "schedule": schedule_json(&s)}),
                    format!("{name}: the result of generate depends on the iteration order of a hash collection (choice points {:?}; {first_diff})", r.trace.iter().take(s.len()).collect::<Vec<_>>()),
                    json!("the same bytes / the same error as with the identity schedule"),
                    json!(first_diff),
                ));
            }
            next.push((s, r.trace));
        }
        frontier = next;
    }
    ex
}

/// Mentions of hash collections in kiki/src that do not go through the cfg-switched imports.
pub fn seam_bypass_scan() -> Vec<String> {
    let mut out = vec![];
    fn walk(dir: &std::path::Path, out: &mut Vec<String>) {
        let Ok(rd) = std::fs::read_dir(dir) else { return };
        let mut entries: Vec<_> = rd.filter_map(|e| e.ok()).map(|e| e.path()).collect();
        entries.sort();
        for p in entries {
            if p.is_dir() {
                walk(&p, out);
            } else if p.extension().map_or(false, |x| x == "rs") && p.file_name().map_or(true, |n| n != "verif_collections.rs") && p.file_name().map_or(true, |n| n != "parser.rs") {
                let Ok(text) = std::fs::read_to_string(&p) else { continue };
                let lines: Vec<&str> = text.lines().collect();
                for (i, l) in lines.iter().enumerate() {
                    let t = l.trim();
                    if t.starts_with("//") {
                        continue;
                    }
                    let std_path = t.contains("std::collections::") && (t.contains("HashMap") || t.contains("HashSet") || t.contains("hash_map") || t.contains("hash_set"));
                    let guarded = i > 0 && lines[i - 1].trim() == "#[cfg(not(kiki_verif))]";
                    let other = t.contains("RandomState") || t.contains("BuildHasher") || t.contains("hashbrown") || t.contains("DefaultHasher");
                    if (std_path && !guarded) || other {
                        out.push(format!("{}:{}", p.strip_prefix(repo()).unwrap_or(&p).display(), i + 1));
                    }
                }
            }
        }
    }
    walk(&repo().join("kiki/src"), &mut out);
    out
}

pub fn corpus(tier: Tier) -> Vec<(String, String)> {
    let mut v = crate::corpus::repo_sources();
    v.push(("ambiguous-expr (conflicts in several states)".into(), "start E\nenum E { Add(E $Plus E) Mul(E $Star E) Id($Id) }\nterminal Tok { $Plus: () $Star: () $Id: () }\n".into()));
    v.push(("dangling-else".into(), "start S1\nenum S1 { If($I S1) IfElse($I S1 $E S1) X($X) }\nterminal Tok { $I: () $E: () $X: () }\n".into()));
    v.push(("lr1-not-lalr".into(), "start S1\nenum S1 { X1($A Aa $D) X2($B Bb $D) X3($A Bb $E) X4($B Aa $E) }\nstruct Aa($C)\nstruct Bb($C)\nterminal Tok { $A: () $B: () $C: () $D: () $E: () }\n".into()));
    v.push(("two-conflicting-nonterminals".into(), "start A\nenum A { X(B C) }\nenum B { P($T B) Q($T) R($T $U) S($T $U) }\nenum C { P($U C) Q($U) R($U $T) S2($U $T) Z }\nterminal Tok { $T: () $U: () }\n".into()));
    // names that clash with the generator's own helper names (renaming happens on these paths only)
    v.push(("all-helper-names".into(), all_helpers_source()));
    for (i, s) in crate::c05::chain_sources().into_iter().enumerate().filter(|(i, _)| i % 8 == 0) {
        v.push((format!("uniquifier-chain#{i}"), s));
    }
    // all of G(2,2,3,2) (accepted and conflicting alike), plain presentation with names in both orders
    {
        use crate::scopes::*;
        let sc = Scope { n: 2, t: 2, p: 3, k: 2, symmetry: false, only_cyclic: false };
        let rhss = all_rhs(sc.n, sc.t, sc.k);
        let mut idx = 0u64;
        let step = tier.pick(4, 1);
        for unit in work_units(&sc, u128::MAX) {
            for_each_completion(&sc, &rhss, &unit, &mut |gr| {
                idx += 1;
                if idx % step == 0 {
                    let pres = Presentation::rotating(&gr, idx);
                    v.push((format!("G(2,2,3,2)#{idx}"), crate::gramsweep::Case::new(gr, pres).rendered.source));
                }
            });
        }
    }
    v
}

pub fn run(ctx: &Ctx) -> Outcome {
    let mut out = Outcome::new("model_checking");
    let bound = ctx.tier.pick(1usize, 2usize);
    let cap: u64 = ctx.tier.pick(720, 40_320);
    let small_cap: u64 = ctx.tier.pick(120, 720);
    let mut acc = Acc::default();
    let mut executions = 0u64;
    let mut taken = 0u64;
    let mut capped = 0u64;
    let mut inputs = 0u64;
    let mut with_points = 0u64;
    let mut samples = vec![];
    let t0 = std::time::Instant::now();
    let budget = ctx.tier.pick(400.0, 3000.0);
    let mut skipped = 0u64;
    for (i, (name, src)) in corpus(ctx.tier).iter().enumerate() {
        if t0.elapsed().as_secs_f64() > budget {
            skipped += 1;
            continue;
        }
        let is_scope = name.starts_with("G(");
        // deviation 2 on the large repository grammars is out of reach; they get deviation 1 with the generator set
        let large = src.len() > 1500;
        let ex = explore(name, src, if large { 1 } else { bound }, if is_scope { small_cap } else { cap }, &mut acc);
        inputs += 1;
        executions += ex.executions;
        taken += ex.choice_points_taken;
        capped += ex.capped_points;
        if !ex.points.is_empty() {
            with_points += 1;
        }
        if i < 12 || i % 1500 == 0 {
            samples.push(json!({"input": name, "choice_points": ex.points.iter().map(|p| json!([p.0.rsplit("::").next().unwrap_or(""), p.1])).collect::<Vec<_>>(), "executions": ex.executions, "points_explored_with_the_generator_set_only": ex.capped_points}));
        }
    }
    // every small invalid file with two or more simultaneous violations ("first error wins" paths)
    let items = crate::c10::item_alphabet();
    let m = 3usize;
    let n = items.len();
    let firsts: Vec<usize> = (0..n).collect();
    let parts: Vec<(Acc, u64, u64, u64, u64)> = firsts
        .par_iter()
        .map(|a| {
            let mut acc = Acc::default();
            let (mut ex_n, mut tk, mut inp, mut wp) = (0u64, 0u64, 0u64, 0u64);
            let mut idx = vec![*a];
            fn rec(idx: &mut Vec<usize>, n: usize, m: usize, items: &[String], bound: usize, cap: u64, acc: &mut Acc, c: &mut (u64, u64, u64, u64)) {
                if idx.len() >= 2 {
                    let src: String = idx.iter().map(|i| items[*i].as_str()).collect::<Vec<_>>().join("\n");
                    if let Ok((file, _)) = crate::reffront::parse_source(&src) {
                        if crate::reffront::violations(&file).len() >= 2 {
                            // cheap pre-run: only inputs that pass at least one choice point need exploring
                            let base = run_with(&src, &[]);
                            c.2 += 1;
                            c.0 += 1;
                            if !base.trace.is_empty() {
                                c.3 += 1;
                                let ex = explore("invalid-file", &src, bound, cap, acc);
                                c.0 += ex.executions;
                                c.1 += ex.choice_points_taken;
                            }
                        }
                    }
                }
                if idx.len() >= m {
                    return;
                }
                for b in 0..n {
                    idx.push(b);
                    rec(idx, n, m, items, bound, cap, acc, c);
                    idx.pop();
                }
            }
            let mut c = (0u64, 0u64, 0u64, 0u64);
            rec(&mut idx, n, m, &items, bound, small_cap, &mut acc, &mut c);
            ex_n += c.0;
            tk += c.1;
            inp += c.2;
            wp += c.3;
            (acc, ex_n, tk, inp, wp)
        })
        .collect();
    let mut invalid_inputs = 0u64;
    let mut invalid_with_points = 0u64;
    for (a, e, t, i, w) in parts {
        acc.merge(a);
        executions += e;
        taken += t;
        invalid_inputs += i;
        invalid_with_points += w;
    }
    if let Some(e) = acc.self_check_errors.iter().find(|e| e.starts_with("uncontrolled nondeterminism")) {
        machinery_error(format!("C14: {e}"));
    }
    // histories of calls in fresh processes (process state as the explored state)
    let t_h = std::time::Instant::now();
    let hs = run_histories(ctx, &mut acc);
    executions += hs.calls;
    out.cov("seconds_histories", json!(t_h.elapsed().as_secs_f64()));
    out.cov("seconds_before_histories", json!(t0.elapsed().as_secs_f64() - t_h.elapsed().as_secs_f64()));
    // supplementary free-running pass with the real RandomState (sampling, labelled as such)
    let bypass = seam_bypass_scan();
    let children = if bypass.is_empty() { 8 } else { 64 };
    let free = free_running_pass(children);
    if let Err(f) = &free {
        acc.finding(f.clone());
    }
    out.cov("states", json!(executions.max(1)));
    out.cov("transitions", json!(taken.max(1)));
    out.cov("traces_validated_against_impl", json!(executions));
    out.cov("exhaustive", json!(skipped == 0));
    out.cov("scopes", json!([
        {"name": "corpus (repository files, multi-conflict grammars, G(2,2,3,2))", "inputs": inputs, "inputs_with_choice_points": with_points, "deviation_bound": bound, "all_permutations_up_to_n_factorial": cap, "for_scope_grammars": small_cap, "points_explored_with_generator_set_only": capped, "completed": skipped == 0, "exhaustive": skipped == 0, "inputs_skipped_by_budget": skipped},
        {"name": "all files of <= 3 items of the C10 space with >= 2 simultaneous violations", "inputs": invalid_inputs, "inputs_with_choice_points": invalid_with_points, "completed": true, "exhaustive": true},
        {"name": format!("histories of calls in one fresh process: all of length 2 over {} texts, all of length 3 over {} of them", hs.alphabet, hs.triples_alphabet), "histories": hs.histories, "calls": hs.calls, "max_length": hs.max_len, "completed": true, "exhaustive": true},
    ]));
    out.cov("distinct_outcomes_per_input", json!(if acc.violating == 0 { 1 } else { 2 }));
    out.cov("seam_bypass", json!(bypass));
    out.cov("impurity_scan (mentions of env, time, statics, atomics, locks, addresses, files in kiki/src)", json!(impurity_scan()));
    out.cov("environment_variables_read_by_kiki (set in one of the free-running children)", json!(env_names_read_by_kiki()));
    out.cov("free_running_pass", json!({"kind": "enumeration of 4 environment classes x 2 visiting orders (sequential / overlapping) in 8 processes - exhaustive over the listed environments; the hash keys are the real RandomState's, i.e. sampled: a difference found here is a counterexample and is reported, silence here says nothing about hash order (the schedule exploration decides that)", "child_processes": children, "result": match &free { Ok(n) => json!(format!("{n} inputs, each visited 3 times on different threads in every process, the processes visiting them in different orders and under different environments (RUST_LOG, RUST_BACKTRACE, LANG, TZ, HOME, working directory, DEBUG / VERBOSE / KIKI_* and every variable kiki's source reads): one digest per input")), Err(f) => json!(f.what) }}));
    out.cov("samples", json!(samples));
    out.cov("explanation", json!("one state = one execution of the real generate under a schedule of hash-iteration orders installed through the kiki::verif_collections seam; one transition = one choice point at which the schedule departs from or follows the identity order; all n! orders are tried where n! is below the cap, otherwise the generator set (adjacent transpositions, reversal, rotations); the same schedule is run twice and a replayed prefix must pass the same choice points (otherwise exit 2); every execution is an execution of the implementation"));
    out.violating_cases = acc.violating;
    out.findings = acc.findings;
    out.assumptions = vec![
        "hash collections reach kiki only through the cfg-switched imports (the scan result is in seam_bypass); the seam permutes iteration order, which is the only way RandomState can influence a program that does not print hashes".into(),
        "interactions needing more than the deviation bound of simultaneously permuted sites are not reached".into(),
    ];
    out
}

/// Names of environment variables that kiki's source reads (`env::var("X")`, `env::var_os("X")`, `env!("X")`,
/// `option_env!("X")`): one of the free-running children sets each of them.
pub fn env_names_read_by_kiki() -> Vec<String> {
    let mut out = std::collections::BTreeSet::new();
    fn walk(dir: &std::path::Path, out: &mut std::collections::BTreeSet<String>) {
        let Ok(rd) = std::fs::read_dir(dir) else { return };
        for p in rd.filter_map(|e| e.ok()).map(|e| e.path()) {
            if p.is_dir() {
                walk(&p, out);
            } else if p.extension().map_or(false, |x| x == "rs") {
                let Ok(text) = std::fs::read_to_string(&p) else { continue };
                for pat in ["env::var(\"", "env::var_os(\"", "env!(\"", "option_env!(\""] {
                    let mut rest = text.as_str();
                    while let Some(i) = rest.find(pat) {
                        let tail = &rest[i + pat.len()..];
                        if let Some(j) = tail.find('"') {
                            out.insert(tail[..j].to_string());
                        }
                        rest = tail;
                    }
                }
            }
        }
    }
    walk(&repo().join("kiki/src"), &mut out);
    out.into_iter().collect()
}

/// Mentions in kiki's source of things a pure function has no business with (reported in the evidence; the
/// histories, the repeat oracle and the environment-varying children are what would notice their effect).
pub fn impurity_scan() -> Vec<String> {
    let mut out = vec![];
    fn walk(dir: &std::path::Path, out: &mut Vec<String>) {
        let Ok(rd) = std::fs::read_dir(dir) else { return };
        let mut entries: Vec<_> = rd.filter_map(|e| e.ok()).map(|e| e.path()).collect();
        entries.sort();
        for p in entries {
            if p.is_dir() {
                walk(&p, out);
            } else if p.extension().map_or(false, |x| x == "rs") && p.file_name().map_or(true, |n| n != "verif_collections.rs") {
                let Ok(text) = std::fs::read_to_string(&p) else { continue };
                for (i, l) in text.lines().enumerate() {
                    let t = l.trim();
                    if t.starts_with("//") {
                        continue;
                    }
                    if ["std::env", "env::var", "SystemTime", "Instant::now", "thread_local!", "static mut", "OnceLock", "OnceCell", "lazy_static", "AtomicUsize", "AtomicU64", "Mutex<", "RwLock<", "process::id", "thread::current", "as *const", "{:p}", "std::fs::", "std::net"].iter().any(|k| t.contains(k)) {
                        out.push(format!("{}:{}", p.strip_prefix(repo()).unwrap_or(&p).display(), i + 1));
                    }
                }
            }
        }
    }
    walk(&repo().join("kiki/src"), &mut out);
    out
}

/// Observations of the fixed corpus in this process (wrappers in pass-through mode, real RandomState): one line
/// per input, `index digest digest digest`. `order` decides in which order the inputs are visited (rotation, and
/// reversal for odd orders), so that the processes differ in their histories as well as in their hash keys.
pub fn free_run_report(order: usize) -> String {
    let c: Vec<(String, String)> = corpus(Tier::Quick).into_iter().take(600).collect();
    let n = c.len();
    let mut idx: Vec<usize> = (0..n).collect();
    idx.rotate_left((order * 97) % n.max(1));
    if order % 2 == 1 {
        idx.reverse();
    }
    // several calls per input, on several threads, each with its own RandomState keys; odd orders walk the corpus
    // sequentially (process state evolves in a known order), even orders let calls on DIFFERENT inputs overlap in time
    // (a shared scratch buffer or cache would be raced over)
    let one = |i: usize| -> (usize, String) {
        let src = &c[i].1;
        let obs: Vec<String> = (0..3).into_par_iter().map(|_| crate::sha256::hex(observe(src).as_bytes())).collect();
        (i, obs.join(" "))
    };
    let mut lines: Vec<(usize, String)> = if order % 2 == 1 { idx.iter().map(|i| one(*i)).collect() } else { idx.par_iter().map(|i| one(*i)).collect() };
    lines.sort();
    lines.into_iter().map(|(i, l)| format!("{i} {l}\n")).collect()
}

fn free_running_pass(children: usize) -> Result<u64, Finding> {
    let exe = std::env::current_exe().unwrap_or_else(|e| machinery_error(format!("current_exe: {e}")));
    let reports: Vec<String> = (0..children)
        .into_par_iter()
        .map(|k| {
            // the children also differ in their environment: a pure function of the text must not notice
            let mut cmd = std::process::Command::new(&exe);
            cmd.arg("free-run").arg(k.to_string());
            match k % 4 {
                1 => {
                    cmd.env("RUST_LOG", "trace").env("RUST_BACKTRACE", "1").env("NO_COLOR", "1");
                }
                2 => {
                    cmd.current_dir("/").env("LANG", "C").env("LC_ALL", "C").env("TZ", "UTC+12").env("HOME", "/nonexistent").env("SOURCE_DATE_EPOCH", "1");
                }
                3 => {
                    cmd.env("DEBUG", "1").env("VERBOSE", "1").env("KIKI_DEBUG", "1").env("KIKI_LOG", "1").env("CI", "true");
                    for name in env_names_read_by_kiki() {
                        cmd.env(name, "1");
                    }
                }
                _ => {}
            }
            let o = cmd.output();
            match o {
                Ok(o) if o.status.success() => String::from_utf8_lossy(&o.stdout).to_string(),
                _ => "child failed".to_string(),
            }
        })
        .collect();
    if reports.iter().any(|d| d == "child failed") {
        machinery_error("C14: a free-running child process failed");
    }
    // every digest of an input, in every process and on every thread, must be the same
    let c: Vec<(String, String)> = corpus(Tier::Quick).into_iter().take(600).collect();
    let mut per_input: std::collections::BTreeMap<usize, std::collections::BTreeSet<String>> = Default::default();
    for r in &reports {
        for l in r.lines() {
            let mut it = l.split(' ');
            let i: usize = it.next().and_then(|x| x.parse().ok()).unwrap_or_else(|| machinery_error("C14: unreadable free-run report"));
            per_input.entry(i).or_default().extend(it.map(|x| x.to_string()));
        }
    }
    if per_input.len() != c.len() {
        machinery_error(format!("C14: the free-run reports cover {} of {} inputs", per_input.len(), c.len()));
    }
    match per_input.iter().find(|(_, d)| d.len() != 1) {
        None => Ok(c.len() as u64),
        Some((i, d)) => Err(Finding::new(
            "free_run",
            json!({"source": c[*i].1, "children": children}),
            format!("generate gave {} different results for one text across {} free-running processes that visit the corpus in different orders, under different environments (variables, working directory) and with the real RandomState — input {}: {:?}", d.len(), children, c[*i].0, c[*i].1.chars().take(200).collect::<String>()),
            json!("one result"),
            json!(d),
        )),
    }
}

pub fn replay(kind: &str, case: &Value) -> Option<Vec<Finding>> {
    if kind == "repeat_case" {
        let src = case["source"].as_str()?;
        let a = run_with(src, &[]);
        let b = run_with(src, &[]);
        return Some(if a.observation != b.observation {
            let mut f = repeat_finding(src, &a.observation, &b.observation);
            f.observed = json!("a different result");
            vec![f]
        } else {
            vec![]
        });
    }
    if kind == "history_case" {
        // fresh children: the text alone, and the recorded history
        let hist: Vec<String> = case["history"].as_array()?.iter().map(|x| x.as_str().unwrap_or("").to_string()).collect();
        let at = case["call"].as_u64()? as usize;
        let root = std::env::var_os("VERIF_ROOT").map(std::path::PathBuf::from).unwrap_or_else(|| std::path::PathBuf::from("/verif"));
        let dir = root.join("scratch").join(format!("c14-replay-{}-{:?}", std::process::id(), std::thread::current().id()));
        std::fs::create_dir_all(&dir).ok()?;
        let file = dir.join("alphabet.json");
        std::fs::write(&file, serde_json::to_string(&hist).unwrap()).ok()?;
        let alone = run_history_child(&file, &[at], false);
        let inside = run_history_child(&file, &(0..hist.len()).collect::<Vec<_>>(), false);
        let _ = std::fs::remove_dir_all(&dir);
        return Some(if alone[0] != inside[at] {
            vec![Finding::new("history_case", case.clone(), "the call returns something else inside the history than alone in a fresh process".to_string(), json!("same result"), json!("different result"))]
        } else {
            vec![]
        });
    }
    if kind != "schedule_case" {
        return None;
    }
    let src = case["source"].as_str()?;
    let sched: Option<Vec<Choice>> = case["schedule"].as_array()?.iter().map(|c| parse_choice(c.as_str()?)).collect();
    let sched = sched?;
    let base = run_with(src, &[]);
    let r = run_with(src, &sched);
    Some(if r.observation != base.observation {
        let first_diff = base.observation.lines().zip(r.observation.lines()).enumerate().find(|(_, (a, b))| a != b).map(|(i, (a, b))| format!("line {}: {:?} vs {:?}", i + 1, a.chars().take(160).collect::<String>(), b.chars().take(160).collect::<String>())).unwrap_or_else(|| "different length".into());
        // (`observed` is what the replay-stability test compares: it must not contain the varying text itself)
        vec![Finding::new("schedule_case", case.clone(), format!("the result depends on the iteration order of a hash collection ({first_diff})"), json!("same result as the identity schedule"), json!("a different result"))]
    } else {
        vec![]
    })
}
