//! C05 — the emitted module compiles for any legal user naming, with no trait bounds on payloads.
//! Explores the naming space by deviation from a conventional naming (1 role renamed: quick;
//! 2 roles renamed simultaneously: thorough) over curated and mechanically harvested name pools,
//! and decides by rustc (`--emit=metadata`, full type and borrow check).

use crate::common::*;
use crate::extract::{lex_rust, Tok};
use crate::gramsweep::{generate, Case, Gen};
use crate::refgram::{Grammar, Sym};
use crate::rustrun::{check_compile, CompileUnit};
use crate::scopes::*;
use serde_json::{json, Value};
use std::collections::BTreeSet;

pub const KEYWORDS: &[&str] = &[
    "as", "break", "const", "continue", "crate", "else", "enum", "extern", "false", "fn", "for", "if", "impl", "in", "let", "loop", "match", "mod", "move", "mut", "pub", "ref", "return", "self", "Self", "static", "struct", "super", "trait", "true", "type", "unsafe",
    "use", "where", "while", "async", "await", "dyn", "abstract", "become", "box", "do", "final", "macro", "override", "priv", "typeof", "unsized", "virtual", "yield", "try", "gen", "union", "macro_rules", "_",
];

/// Rust 2021 prelude items (types, traits, variants, functions) and primitive type names.
pub const PRELUDE: &[&str] = &[
    "Option", "Some", "None", "Result", "Ok", "Err", "Box", "Vec", "String", "ToString", "ToOwned", "Clone", "Copy", "Send", "Sync", "Sized", "Drop", "Fn", "FnMut", "FnOnce", "drop", "AsRef", "AsMut", "Into", "From", "Default", "Iterator", "Extend",
    "IntoIterator", "DoubleEndedIterator", "ExactSizeIterator", "Eq", "PartialEq", "Ord", "PartialOrd", "Unpin", "TryFrom", "TryInto", "FromIterator", "std", "core", "alloc", "usize", "isize", "u8", "u16", "u32", "u64", "u128", "i8", "i16", "i32", "i64",
    "i128", "bool", "char", "str", "f32", "f64", "vec", "format", "panic", "print", "println", "assert", "debug_assert", "unreachable", "todo", "unimplemented", "write", "writeln", "matches",
];

fn t(i: u8) -> Sym {
    Sym::T(i)
}
fn n(i: u8) -> Sym {
    Sym::N(i)
}

pub struct Carrier {
    pub name: &'static str,
    pub g: Grammar,
    pub pres: Presentation,
}

pub fn carriers() -> Vec<Carrier> {
    let mut out = vec![];
    // 1. enum-rooted: Aa -> Bb | ta Aa | eps ; Bb -> tb Cc ; Cc -> ta
    {
        let g = Grammar { n: 3, t: 2, prods: vec![(0, vec![n(1)]), (0, vec![t(0), n(0)]), (0, vec![]), (1, vec![t(1), n(2)]), (2, vec![t(0)])] };
        let mut p = Presentation::plain(&g);
        p.single_as_struct = vec![false, true, true];
        p.styles[1] = ProdStyle { named: true, skip_mask: 0 };
        p.styles[3] = ProdStyle { named: true, skip_mask: 0 };
        out.push(Carrier { name: "enum-rooted", g, pres: p });
    }
    // 2. struct-rooted: Aa { first: Bb  second: $Ta } ; enum Bb { V0($Tb) V1 }
    {
        let g = Grammar { n: 2, t: 2, prods: vec![(0, vec![n(1), t(0)]), (1, vec![t(1)]), (1, vec![])] };
        let mut p = Presentation::plain(&g);
        p.single_as_struct = vec![true, false];
        p.styles[0] = ProdStyle { named: true, skip_mask: 0 };
        out.push(Carrier { name: "struct-rooted", g, pres: p });
    }
    // 3. epsilon and left recursion, tuple fields, a `_` field: enum Aa { V0  V1(Aa $Ta _: $Tb) }
    {
        let g = Grammar { n: 1, t: 2, prods: vec![(0, vec![]), (0, vec![n(0), t(0), t(1)])] };
        let mut p = Presentation::plain(&g);
        p.styles[1] = ProdStyle { named: false, skip_mask: 0b100 };
        out.push(Carrier { name: "epsilon-recursion", g, pres: p });
    }
    // shape extremes
    {
        let g = Grammar { n: 1, t: 0, prods: vec![(0, vec![])] };
        let mut p = Presentation::plain(&g);
        p.single_as_struct = vec![true];
        out.push(Carrier { name: "no-terminals", g, pres: p });
    }
    {
        let g = Grammar { n: 1, t: 1, prods: vec![] };
        out.push(Carrier { name: "variant-less-start", pres: Presentation::plain(&g), g });
    }
    {
        let g = Grammar { n: 1, t: 1, prods: vec![(0, vec![t(0)])] };
        let mut p = Presentation::plain(&g);
        p.single_as_struct = vec![true];
        p.styles[0] = ProdStyle { named: true, skip_mask: 1 };
        out.push(Carrier { name: "unit-like-start-with-underscore-field", g, pres: p });
    }
    for c in out.iter_mut() {
        c.pres.payload = "crate::P".into();
    }
    out
}

#[derive(Clone, Copy, PartialEq, Eq, Debug)]
pub enum RoleKind {
    Upper,
    Field,
}

/// All renamable roles of a carrier: (override key, kind).
pub fn roles(c: &Carrier) -> Vec<(String, RoleKind)> {
    let mut out = vec![("tok".to_string(), RoleKind::Upper)];
    for i in 0..c.g.n {
        out.push((format!("n{i}"), RoleKind::Upper));
    }
    for i in 0..c.g.t {
        out.push((format!("t{i}"), RoleKind::Upper));
    }
    for (pi, (l, rhs)) in c.g.prods.iter().enumerate() {
        let count = c.g.prods.iter().filter(|p| p.0 == *l).count();
        let is_struct = count == 1 && c.pres.single_as_struct[*l as usize];
        if !is_struct {
            out.push((format!("v{pi}"), RoleKind::Upper));
        }
        if c.pres.styles[pi].named {
            for j in 0..rhs.len() {
                if !c.pres.styles[pi].skipped(j) {
                    out.push((format!("f{pi}_{j}"), RoleKind::Field));
                }
            }
        }
    }
    out
}

pub const CURATED_UPPER: &[&str] = &[
    // (Debug, Hash, Display, Iter, ... are not prelude items: legal user names)
    "State", "Node", "Action", "RuleKind", "Eof", "Quasiterminal", "QuasiterminalKind", "NonterminalKind", "Terminal", "Shift", "Reduce", "Accept", "S", "T", "N", "S0", "S1", "R0", "R1", "ACTION_TABLE", "GOTO_TABLE", "Error", "Item", "State2", "Node2",
    "Action2", "RuleKind2", "Eof2", "Quasiterminal2", "QuasiterminalKind2", "NonterminalKind2", "ACTION_TABLE2", "GOTO_TABLE2", "__", "_0", "Output", "IntoIter", "Target", "Owned", "P", "Src", "Tok", "Reduce2", "Debug", "Hash", "Display", "Error2", "Item2", "Iter", "Peekable", "Chain", "Once", "Map", "Ordering", "Rc", "Cell",
];

pub const CURATED_LOWER: &[&str] = &[
    "states", "nodes", "rule_kind", "t0", "t1", "t2", "n", "t", "node", "src", "new_state", "top_state", "quasiterminals", "reduce", "parse", "get_action", "get_goto", "pop_and_reduce", "try_from", "states_0", "nodes_1", "x", "x_1", "terminal", "new_node",
    "temp_top_state", "next_quasiterminal_kind", "from_terminal", "try_into_terminal", "from_quasiterminal", "new_node_kind", "quasiterminal", "reduce_r0", "__", "_0", "first_0", "t0_0", "f0_0",
];

fn legal(name: &str) -> bool {
    !KEYWORDS.contains(&name) && !PRELUDE.contains(&name) && !name.is_empty() && (name.as_bytes()[0].is_ascii_alphabetic() || name.as_bytes()[0] == b'_') && name.bytes().all(|b| b.is_ascii_alphanumeric() || b == b'_')
}

fn first_letter_upper(name: &str) -> Option<bool> {
    name.chars().find(|c| c.is_ascii_alphabetic()).map(|c| c.is_ascii_uppercase())
}

/// Identifiers harvested from the text emitted for the conventionally named carriers.
pub fn mechanical_pool(cs: &[Carrier]) -> (BTreeSet<String>, BTreeSet<String>) {
    let mut upper = BTreeSet::new();
    let mut lower = BTreeSet::new();
    for c in cs {
        let case = Case::new(c.g.clone(), c.pres.clone());
        if let Gen::Ok(text) = generate(&case.rendered.source) {
            let user: BTreeSet<String> = lex_rust(&case.rendered.source).unwrap_or_default().iter().filter_map(|t| t.ident().map(|s| s.to_string())).collect();
            for tok in lex_rust(&text).unwrap_or_default() {
                if let Tok::Ident(id) = tok {
                    if !legal(id) || user.contains(id) {
                        continue;
                    }
                    match first_letter_upper(id) {
                        Some(true) => {
                            upper.insert(id.to_string());
                        }
                        Some(false) => {
                            lower.insert(id.to_string());
                        }
                        None => {
                            upper.insert(id.to_string());
                            lower.insert(id.to_string());
                        }
                    }
                }
            }
        }
    }
    (upper, lower)
}

/// All grammar sources of the quick naming space (every (role, name) pair over the curated pools on every carrier),
/// for checks that only need the texts (C07: generate must not panic on any of them).
pub fn naming_sources() -> Vec<String> {
    let cs = carriers();
    let mut out = vec![];
    for c in &cs {
        for (role, kind) in roles(c) {
            let pool: Vec<&str> = if kind == RoleKind::Upper { CURATED_UPPER.to_vec() } else { CURATED_LOWER.to_vec() };
            for name in pool.into_iter().chain(["X", "x", "_", "__x", "A1", "a_", "Zz9_", "ABC", "aBC", "X_Y", "_9", "_9a", "_9A"]) {
                if name == "_" {
                    continue;
                }
                let mut pres = c.pres.clone();
                pres.names.insert(role.clone(), name.to_string());
                out.push(Case::new(c.g.clone(), pres).rendered.source);
            }
        }
    }
    out
}

/// Long uniquifier chains: a helper name together with ALL its suffixed forms 2..k as extra (unreachable)
/// unit structs, for k around 9/10/11 (two-digit suffixes) and 99/100/101 (three-digit suffixes).
pub fn chain_sources() -> Vec<String> {
    let helpers = ["State", "Node", "Action", "RuleKind", "Eof", "Quasiterminal", "QuasiterminalKind", "NonterminalKind", "S", "ACTION_TABLE", "GOTO_TABLE", "Terminal", "reduce"];
    let base = "start Aa\nenum Aa {\n    Vz(Bb)\n    Va {\n        z: $Tax\n        a: Aa\n    }\n    Vm\n}\nstruct Bb {\n    z: $Tbx\n    a: Cc\n}\nstruct Cc($Tax)\nterminal Tok {\n    $Tax: crate::P\n    $Tbx: crate::P\n}\n";
    let mut out = vec![];
    for h in helpers {
        if h.chars().next().map(|c| c.is_ascii_lowercase()).unwrap_or(false) {
            continue; // nonterminal names must be upper-case; `reduce` cannot be a type name
        }
        for k in [8usize, 9, 10, 11, 12, 99, 100, 101] {
            let mut s = String::from(base);
            s += &format!("struct {h}\n");
            for i in 2..=k {
                s += &format!("struct {h}{i}\n");
            }
            out.push(s);
        }
    }
    out
}

pub struct NamingCase {
    pub carrier: usize,
    pub renames: Vec<(String, String)>,
    pub source: String,
    pub text: String,
}

const NAME_RELATIONS: usize = usize::MAX;
const SHAPES: usize = usize::MAX - 1;
fn carrier_name(cs: &[Carrier], i: usize) -> &'static str {
    match i {
        NAME_RELATIONS => "name-relation space",
        SHAPES => "grammar shapes",
        _ => cs[i].name,
    }
}

const CRATE_PRELUDE: &str = "pub struct P; // a payload type with no derives and no trait implementations at all\n";

/// Identifier-like string literals of the generator's source (upper-case initial, not a prelude item): names it may
/// treat specially. Harvested, so that a special case added later enters by itself.
pub fn generator_literals() -> Vec<String> {
    let text = std::fs::read_to_string(repo().join("kiki/src/pipeline/table_to_rust.rs")).unwrap_or_default();
    // only the part before the unit tests
    let text = text.split("#[cfg(test)]").next().unwrap_or("").to_string();
    let mut out: BTreeSet<String> = BTreeSet::new();
    let b = text.as_bytes();
    let mut i = 0;
    while i < b.len() {
        if b[i] == b'"' {
            let mut j = i + 1;
            while j < b.len() && b[j] != b'"' && b[j] != b'\\' && b[j] != b'\n' {
                j += 1;
            }
            if j < b.len() && b[j] == b'"' {
                let lit = &text[i + 1..j];
                if !lit.is_empty() && lit.len() <= 24 && lit.chars().next().map(|c| c.is_ascii_uppercase()).unwrap_or(false) && lit.chars().all(|c| c.is_ascii_alphanumeric() || c == '_') && legal(lit) {
                    out.insert(lit.to_string());
                }
                i = j + 1;
                continue;
            }
        }
        i += 1;
    }
    out.insert("Error".into());
    out.into_iter().collect()
}

fn compile_finding(source: &str, carrier: &str, renames: &[(String, String)], err: &str) -> Finding {
    Finding::new(
        "compile_case",
        json!({"source": source, "payload_prelude": CRATE_PRELUDE}),
        format!("the emitted module does not compile (carrier {carrier}, renamed {renames:?}): {err}"),
        json!("rustc reports no error in the emitted module"),
        json!(err),
    )
}

pub fn run(ctx: &Ctx) -> Outcome {
    let mut out = Outcome::new("exploration");
    let cs = carriers();
    let (mech_upper, mech_lower) = mechanical_pool(&cs);
    let cur_upper: BTreeSet<String> = CURATED_UPPER.iter().filter(|s| legal(s)).map(|s| s.to_string()).collect();
    let cur_lower: BTreeSet<String> = CURATED_LOWER.iter().filter(|s| legal(s)).map(|s| s.to_string()).collect();
    let upper1: Vec<String> = mech_upper.union(&cur_upper).filter(|s| first_letter_upper(s) != Some(false)).cloned().collect();
    let lower1: Vec<String> = mech_lower.union(&cur_lower).filter(|s| first_letter_upper(s) != Some(true)).cloned().collect();
    let mut cases: Vec<NamingCase> = vec![];
    let mut skipped_not_ok = 0u64;
    let mut conventional = 0u64;
    let mut try_case = |ci: usize, renames: Vec<(String, String)>, cases: &mut Vec<NamingCase>, skipped: &mut u64| {
        let c = &cs[ci];
        let mut pres = c.pres.clone();
        for (k, v) in &renames {
            pres.names.insert(k.clone(), v.clone());
        }
        let case = Case::new(c.g.clone(), pres);
        // precondition of C05: field names within one fieldset are distinct (kiki does not check this itself)
        let duplicate_fields = case.rendered.names.fields.iter().any(|fs| {
            let named: Vec<&String> = fs.iter().flatten().collect();
            named.iter().enumerate().any(|(i, a)| named[..i].contains(a))
        });
        if duplicate_fields {
            *skipped += 1;
            return;
        }
        match generate(&case.rendered.source) {
            Gen::Ok(text) => cases.push(NamingCase { carrier: ci, renames, source: case.rendered.source.clone(), text }),
            _ => *skipped += 1, // precondition of C05: generate returned Ok (kiki's own name-clash rules reject the rest)
        }
    };
    for ci in 0..cs.len() {
        try_case(ci, vec![], &mut cases, &mut skipped_not_ok);
        conventional += 1;
        let rs = roles(&cs[ci]);
        for (role, kind) in &rs {
            let pool = if *kind == RoleKind::Upper { &upper1 } else { &lower1 };
            for name in pool {
                try_case(ci, vec![(role.clone(), name.clone())], &mut cases, &mut skipped_not_ok);
            }
        }
    }
    // uniquifier chains: a helper name together with its uniquified forms (State + State2, State + State2 + State3)
    // in two or three roles at once - the smallest inputs on which a renaming scheme can collide with itself
    let helpers = ["State", "Node", "Action", "RuleKind", "Eof", "Quasiterminal", "QuasiterminalKind", "NonterminalKind", "S", "ACTION_TABLE", "GOTO_TABLE", "Error", "Terminal"];
    for ci in 0..3 {
        let upper_roles: Vec<String> = roles(&cs[ci]).into_iter().filter(|r| r.1 == RoleKind::Upper).map(|r| r.0).collect();
        for h in helpers {
            for (a, b) in [(0usize, 1usize), (1, 0), (0, upper_roles.len() - 1), (2, 3)] {
                if a < upper_roles.len() && b < upper_roles.len() && a != b {
                    try_case(ci, vec![(upper_roles[a].clone(), h.to_string()), (upper_roles[b].clone(), format!("{h}2"))], &mut cases, &mut skipped_not_ok);
                    if let Some(c) = (0..upper_roles.len()).find(|c| *c != a && *c != b) {
                        try_case(ci, vec![(upper_roles[a].clone(), h.to_string()), (upper_roles[b].clone(), format!("{h}2")), (upper_roles[c].clone(), format!("{h}3"))], &mut cases, &mut skipped_not_ok);
                        try_case(ci, vec![(upper_roles[a].clone(), format!("{h}2")), (upper_roles[c].clone(), format!("{h}3"))], &mut cases, &mut skipped_not_ok);
                    }
                }
            }
        }
        // lower-case: field names equal to the generator's local variable names with index suffixes
        let field_roles: Vec<String> = roles(&cs[ci]).into_iter().filter(|r| r.1 == RoleKind::Field).map(|r| r.0).collect();
        if field_roles.len() >= 2 {
            for (x, y) in [("nodes", "states"), ("t0", "t1"), ("node", "src"), ("f0", "f0_0"), ("x", "x_0"), ("new_node", "new_node_kind")] {
                try_case(ci, vec![(field_roles[0].clone(), x.to_string()), (field_roles[1].clone(), y.to_string())], &mut cases, &mut skipped_not_ok);
            }
        }
    }
    // long uniquifier chains (State, State2 .. State12 / .. State101)
    for src in chain_sources() {
        match generate(&src) {
            Gen::Ok(text) => cases.push(NamingCase { carrier: 0, renames: vec![("chain".into(), src.lines().last().unwrap_or("").to_string())], source: src, text }),
            _ => skipped_not_ok += 1,
        }
    }
    // related names (prefixes, case variants, digits, underscores) in pairs of roles
    let before_names = cases.len();
    for nc in crate::names::relation_cases(ctx.tier.pick(1, 2)) {
        if nc.duplicate_fields {
            skipped_not_ok += 1;
            continue;
        }
        match generate(&nc.source) {
            Gen::Ok(text) => cases.push(NamingCase { carrier: NAME_RELATIONS, renames: vec![("roles".into(), nc.label.clone())], source: nc.source, text }),
            _ => skipped_not_ok += 1,
        }
    }
    let name_relation_modules = cases.len() - before_names;
    // grammar shapes: "whenever generate returns Ok" also ranges over the grammar, not only over the names -
    // every accepted grammar of small scopes (no terminals at all, one terminal, up to four nonterminals,
    // variant-less enums, unreachable and unproductive symbols) and the presentation space, with the
    // trait-less payload type and no attributes
    let before_shapes = cases.len();
    let mut shape_scopes = vec![];
    {
        use crate::gramsweep::{g, gsym, Spec};
        use crate::scopes::*;
        let specs: Vec<Spec> = match ctx.tier {
            Tier::Quick => vec![g(2, 0, 2, 2), g(2, 1, 2, 2), gsym(2, 2, 2, 2), g(3, 1, 3, 1), gsym(3, 2, 3, 1), gsym(4, 0, 4, 1), Spec::PSpace { max_fields: 2, recursion: false }, Spec::Scaled { deep: false }, Spec::GP(Scope { n: 1, t: 1, p: 2, k: 2, symmetry: false, only_cyclic: false })],
            Tier::Thorough => vec![g(2, 0, 2, 2), g(2, 1, 2, 2), g(2, 2, 2, 2), g(3, 1, 3, 1), gsym(3, 2, 3, 1), gsym(4, 0, 4, 1), gsym(3, 0, 3, 2), gsym(2, 2, 3, 2), Spec::PSpace { max_fields: 3, recursion: true }, Spec::Scaled { deep: true }, Spec::GP(Scope { n: 1, t: 2, p: 2, k: 2, symmetry: false, only_cyclic: false })],
        };
        for spec in &specs {
            let b = cases.len();
            let mut n = 0u64;
            let mut add = |gr: Grammar, mut pres: Presentation, cases: &mut Vec<NamingCase>| {
                n += 1;
                pres.payload = "crate::P".into();
                pres.attribute = String::new();
                let case = Case::new(gr, pres);
                if let Gen::Ok(text) = generate(&case.rendered.source) {
                    cases.push(NamingCase { carrier: SHAPES, renames: vec![], source: case.rendered.source.clone(), text });
                }
            };
            match spec {
                Spec::G(sc) => {
                    let rhss = all_rhs(sc.n, sc.t, sc.k);
                    let mut idx = 0u64;
                    for unit in work_units(sc, u128::MAX) {
                        for_each_completion(sc, &rhss, &unit, &mut |gr| {
                            let pres = Presentation::rotating(&gr, idx);
                            add(gr, pres, &mut cases);
                            idx += 1;
                        });
                    }
                }
                Spec::PSpace { max_fields, recursion } => {
                    for p in crate::pspace::patterns(*max_fields, *recursion).into_iter().chain(crate::pspace::long_patterns(crate::pspace::LONG_MAX)) {
                        let (gr, pres, _) = crate::pspace::build(&p);
                        add(gr, pres, &mut cases);
                    }
                }
                Spec::Scaled { deep } => {
                    for (i, f) in crate::scaled::families(*deep).iter().enumerate() {
                        add(f.g.clone(), crate::scaled::presentation(f, i), &mut cases);
                    }
                }
                Spec::GP(sc) => {
                    let rhss = all_rhs(sc.n, sc.t, sc.k);
                    let mut grs = vec![];
                    for unit in work_units(sc, u128::MAX) {
                        for_each_completion(sc, &rhss, &unit, &mut |gr| grs.push(gr));
                    }
                    for gr in grs {
                        let mut ps = vec![];
                        for_each_presentation(&gr, &mut |pres| ps.push(pres));
                        for pres in ps {
                            add(gr.clone(), pres, &mut cases);
                        }
                    }
                }
                _ => unreachable!(),
            }
            shape_scopes.push(json!({"name": spec.name(), "size": n, "accepted_modules": cases.len() - b, "completed": true, "exhaustive": true}));
        }
    }
    let shape_modules = cases.len() - before_shapes;
    // a restricted deviation 2 for the quick tier: a helper name in one role together with a name the generator
    // itself mentions (every identifier-like string literal of table_to_rust.rs: variant prefixes, `Error`, ...) in
    // another role, on the first carrier - the pairs where two of the generator's own special cases can meet
    let before_special = cases.len();
    let special = generator_literals();
    {
        let rs = roles(&cs[0]);
        let upper_roles: Vec<&String> = rs.iter().filter(|r| r.1 == RoleKind::Upper).map(|r| &r.0).collect();
        for ra in &upper_roles {
            for rb in &upper_roles {
                if ra == rb || !(ra.starts_with('n') || ra.starts_with("tok")) {
                    continue;
                }
                for h in helpers {
                    for sp in &special {
                        if *sp != h {
                            try_case(0, vec![((*ra).clone(), h.to_string()), ((*rb).clone(), sp.clone())], &mut cases, &mut skipped_not_ok);
                        }
                    }
                }
            }
        }
    }
    let special_pair_modules = cases.len() - before_special;
    let deviation1 = cases.len();
    if ctx.tier == Tier::Thorough {
        // deviation 2: every pair of assignments over the curated pools, on the three main carriers
        for ci in 0..3 {
            let rs = roles(&cs[ci]);
            for a in 0..rs.len() {
                for b in a + 1..rs.len() {
                    let pa: Vec<&String> = if rs[a].1 == RoleKind::Upper { cur_upper.iter().collect() } else { cur_lower.iter().collect() };
                    let pb: Vec<&String> = if rs[b].1 == RoleKind::Upper { cur_upper.iter().collect() } else { cur_lower.iter().collect() };
                    for na in &pa {
                        for nb in &pb {
                            try_case(ci, vec![(rs[a].0.clone(), (*na).clone()), (rs[b].0.clone(), (*nb).clone())], &mut cases, &mut skipped_not_ok);
                        }
                    }
                }
            }
        }
    }
    let units: Vec<CompileUnit> = cases.iter().enumerate().map(|(i, c)| CompileUnit { files: vec![(format!("g{i}.rs"), c.text.clone())], decl: format!("#[path = \"g{i}.rs\"] pub mod g{i};"), main_call: String::new() }).collect();
    let (errs, secs) = check_compile(&units, CRATE_PRELUDE, 60, "c05");
    let mut failing = 0u64;
    let mut distinct_errors: BTreeSet<String> = BTreeSet::new();
    for (i, e) in errs.iter().enumerate() {
        if let Some(e) = e {
            failing += 1;
            distinct_errors.insert(e.chars().take(80).collect());
            let c = &cases[i];
            out.push(compile_finding(&c.source, carrier_name(&cs, c.carrier), &c.renames, e));
        }
    }
    let distinct_sources: BTreeSet<&String> = cases.iter().map(|c| &c.source).collect();
    out.cov("evaluations", json!(cases.len()));
    out.cov("distinct_nontrivial", json!(distinct_sources.len()));
    out.cov("rule", json!("one evaluation = one naming of a carrier grammar, one pair of related names in the name-relation grammar, or one accepted grammar of the shape scopes (generate returned Ok) compiled by rustc --emit=metadata as a module of a crate that only defines `pub struct P;`; distinct = distinct grammar source texts; every case is non-trivial (a full type and borrow check of the emitted module)"));
    out.cov("exhaustive", json!(true));
    out.cov("scopes", json!({
        "carriers": cs.iter().map(|c| c.name).collect::<Vec<_>>(),
        "conventional_namings": conventional,
        "deviation_1_modules_and_uniquifier_chains": deviation1,
        "deviation_2_modules": cases.len() - deviation1,
        "name_relation_modules": name_relation_modules,
        "helper_name_x_generator_literal_pairs": special_pair_modules,
        "generator_literals": special,
        "grammar_shape_modules": shape_modules,
        "grammar_shape_scopes": shape_scopes,
        "pool_upper_case": upper1.len(), "pool_lower_case": lower1.len(),
        "mechanical_pool_upper": mech_upper.len(), "mechanical_pool_lower": mech_lower.len(),
        "namings_outside_the_precondition (rejected by generate itself, or two equal field names in one fieldset)": skipped_not_ok,
    }));
    out.cov("modules_failing_to_compile", json!(failing));
    out.cov("distinct_error_heads", json!(distinct_errors));
    out.cov("rustc_seconds", json!((secs * 10.0).round() / 10.0));
    let samples: Vec<Value> = take_samples(&cases.iter().map(|c| json!({"carrier": carrier_name(&cs, c.carrier), "renamed": c.renames, "source": c.source})).collect::<Vec<_>>(), 4, ctx.seed);
    out.cov("samples", json!(samples));
    out.cov("mechanical_pool_sample", json!(mech_upper.iter().take(40).collect::<Vec<_>>()));
    out.assumptions = vec!["identifiers that are Rust keywords or prelude items are excluded (precondition of the property)".into(), "rustc 1.95 --emit=metadata is the judge of 'compiles'".into()];
    out
}

pub fn replay(kind: &str, case: &Value) -> Option<Vec<Finding>> {
    if kind != "compile_case" {
        return None;
    }
    let src = case["source"].as_str()?;
    let Gen::Ok(text) = generate(src) else { return Some(vec![]) };
    let units = vec![CompileUnit { files: vec![("g0.rs".into(), text)], decl: "#[path = \"g0.rs\"] pub mod g0;".into(), main_call: String::new() }];
    let (errs, _) = check_compile(&units, case["payload_prelude"].as_str().unwrap_or(CRATE_PRELUDE), 1, "c05replay");
    Some(match &errs[0] {
        Some(e) => vec![Finding::new("compile_case", case.clone(), format!("the emitted module does not compile: {e}"), json!("rustc reports no error in the emitted module"), json!(e))],
        None => vec![],
    })
}
