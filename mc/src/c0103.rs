//! C01 (language equality) and C03 (error position) — model layer (E2) plus real-code layer (E3).

use crate::common::*;
use crate::gramsweep::{all_seed_nbh, g, gsym, Spec};
use serde_json::json;

fn model_specs(tier: Tier) -> Vec<Spec> {
    match tier {
        Tier::Quick => {
            let mut v = vec![g(2, 2, 3, 3), g(2, 0, 3, 3), g(2, 1, 3, 3), g(1, 3, 3, 2), crate::gramsweep::gcyclic(3, 1, 3, 3), Spec::Files { k: 1, cap: 250 }, Spec::Names { extra: 2 }, Spec::Scaled { deep: false }, Spec::GP(crate::scopes::Scope { n: 2, t: 1, p: 2, k: 2, symmetry: false, only_cyclic: false }), Spec::GP(crate::scopes::Scope { n: 1, t: 2, p: 2, k: 2, symmetry: false, only_cyclic: false })];
            v.extend(all_seed_nbh(1, 1, 100_000));
            v
        }
        Tier::Thorough => {
            let mut v = vec![g(2, 2, 3, 3), g(2, 3, 4, 2), g(3, 2, 4, 2), gsym(2, 2, 4, 3), g(1, 3, 4, 3), Spec::Files { k: 1, cap: 3000 }, Spec::Names { extra: 2 }, Spec::Scaled { deep: true }, Spec::GP(crate::scopes::Scope { n: 2, t: 1, p: 2, k: 2, symmetry: false, only_cyclic: false }), Spec::GP(crate::scopes::Scope { n: 1, t: 2, p: 2, k: 2, symmetry: false, only_cyclic: false }), Spec::GP(crate::scopes::Scope { n: 2, t: 2, p: 2, k: 2, symmetry: true, only_cyclic: false })];
            v.extend(all_seed_nbh(2, 1, 60_000));
            v
        }
    }
}

fn real_specs(tier: Tier, property: &str) -> Vec<Spec> {
    if property == "C02" {
        // C02's own space is the presentation space; the rotating presentations of the grammar scopes come on top
        return match tier {
            Tier::Quick => {
                let mut v = vec![Spec::PSpace { max_fields: 3, recursion: true }, Spec::Files { k: 0, cap: 0 }, Spec::Names { extra: 1 }, Spec::Scaled { deep: false }, Spec::GP(crate::scopes::Scope { n: 1, t: 2, p: 2, k: 2, symmetry: false, only_cyclic: false }), g(2, 1, 2, 2), gsym(2, 2, 2, 2)];
                v.extend(all_seed_nbh(0, 0, 1));
                v
            }
            Tier::Thorough => {
                let mut v = vec![Spec::PSpace { max_fields: 3, recursion: true }, Spec::Files { k: 0, cap: 0 }, Spec::Names { extra: 1 }, Spec::Scaled { deep: false }, Spec::GP(crate::scopes::Scope { n: 1, t: 2, p: 2, k: 2, symmetry: false, only_cyclic: false }), Spec::GP(crate::scopes::Scope { n: 2, t: 1, p: 2, k: 2, symmetry: false, only_cyclic: false }), g(2, 2, 3, 2), g(1, 2, 3, 3), g(2, 2, 2, 3)];
                v.extend(all_seed_nbh(1, 1, 600));
                v
            }
        };
    }
    match tier {
        Tier::Quick => {
            let mut v = vec![gsym(2, 2, 3, 2), g(2, 0, 2, 2), g(2, 1, 2, 2), Spec::Files { k: 0, cap: 0 }, Spec::Names { extra: 1 }, Spec::Scaled { deep: false }];
            v.extend(all_seed_nbh(0, 0, 1));
            v
        }
        Tier::Thorough => {
            let mut v = vec![g(2, 2, 3, 2), g(2, 0, 3, 2), g(2, 1, 3, 2), Spec::Files { k: 0, cap: 0 }, Spec::Names { extra: 1 }, Spec::Scaled { deep: false }, Spec::GP(crate::scopes::Scope { n: 1, t: 2, p: 2, k: 2, symmetry: false, only_cyclic: false }), g(1, 2, 3, 3), g(2, 2, 2, 3), gsym(2, 3, 3, 2)];
            v.extend(all_seed_nbh(1, 1, 600));
            v
        }
    }
}

pub fn run(ctx: &Ctx, property: &'static str) -> Outcome {
    let mut out = Outcome::new("model_checking");
    let deep = ctx.tier == Tier::Thorough;
    // ---- real-code layer (E3)
    // the witness of the known finding D12 makes the real parse exhaust its memory limit: only C01 (termination) runs it
    let mut rspecs = real_specs(ctx.tier, property);
    if property != "C01" {
        rspecs.retain(|s| !matches!(s, Spec::Nbh { seed, .. } if *seed == "cyclic-hidden"));
    }
    let real = crate::reallayer::run_layer(property, &rspecs, deep, ctx.tier.pick(0, 1));
    // ---- model layer (E2); C02 is decided on real code alone
    let mut mspecs = model_specs(ctx.tier);
    if property != "C01" {
        // the cyclic scope only serves C01's known finding (termination)
        mspecs.retain(|s| !matches!(s, Spec::G(sc) if sc.only_cyclic));
    }
    let model = if property == "C02" { None } else { Some(crate::pda::run_model_layer(ctx, property, &mspecs, ctx.tier.pick(400.0, 3000.0))) };
    let mut notes: Vec<String> = vec![];
    for e in real.acc.self_check_errors.iter().chain(model.iter().flat_map(|m| m.acc.self_check_errors.iter())) {
        if e.starts_with("reference self-check") || e.starts_with("missing real observation") {
            machinery_error(format!("{property}: {e}"));
        }
        notes.push(e.clone());
    }
    let validated = real.acc.get("model traces validated against the real parse");
    let diverged = real.acc.get("model traces that diverge from the real parse");
    let mut model_bound = false;
    let mut scopes = real.scopes.clone();
    let mut states = real.acc.get("real executions compared");
    let mut transitions = real.results_runs;
    if let Some(m) = &model {
        let bound = m.acc.get("grammars with a bound model");
        let unbound = m.acc.get("model unbound: emitted text not understood by the extractor") + m.acc.get("model unbound: driver loop differs from the modelled template");
        model_bound = unbound == 0 && bound > 0 && diverged == 0 && validated > 0;
        if model_bound {
            states = m.acc.get("configurations").max(1);
            transitions = m.acc.get("token feeds").max(1);
        }
        scopes.extend(m.scopes.iter().cloned().map(|mut s| {
            s["layer"] = json!("model of the emitted parser (tables and reduce functions extracted from the emitted text)");
            s
        }));
    }
    out.cov("states", json!(states.max(1)));
    out.cov("transitions", json!(transitions.max(1)));
    out.cov("traces_validated_against_impl", json!(if property == "C02" { real.acc.get("real executions compared") } else { validated }));
    out.cov("model_bound", json!(model_bound));
    out.cov("model_divergences", json!(diverged));
    out.cov("real_modules_compiled_and_run", json!(real.modules));
    out.cov("real_parse_executions", json!(real.results_runs));
    out.cov("real_layer_seconds", json!({"rustc": (real.compile_s * 10.0).round() / 10.0, "run": (real.run_s * 10.0).round() / 10.0}));
    out.cov("scopes", json!(scopes));
    out.cov("exhaustive", json!(scopes.iter().all(|s| s["completed"].as_bool().unwrap_or(false))));
    out.cov("histogram_real_layer", json!(real.acc.counters));
    out.cov("maxima_real_layer", json!(real.acc.maxima));
    let mut samples = real.acc.samples.clone();
    out.violating_cases = real.acc.violating;
    out.findings = real.acc.findings;
    if let Some(m) = model {
        out.cov("histogram_model_layer", json!(m.acc.counters));
        out.cov("maxima_model_layer", json!(m.acc.maxima));
        samples.extend(m.acc.samples.iter().cloned());
        if model_bound || !m.acc.findings.is_empty() && diverged == 0 {
            // an unbound model is not believed: its findings are dropped and the real layer decides alone
            out.violating_cases += m.acc.violating;
            out.findings.extend(m.acc.findings);
        } else if !m.acc.findings.is_empty() {
            notes.push(format!("{} model-layer findings were dropped because the model is not bound to the code in this run", m.acc.findings.len()));
        }
    }
    if samples.is_empty() {
        samples.push(json!("no sample"));
    }
    out.cov("samples", json!(samples));
    out.cov("notes", json!(notes));
    out.cov("explanation", json!("states = parser configurations explored over the input tries (model layer when it is bound, else real executions), transitions = token feeds; traces_validated_against_impl = (grammar, word) runs in which the model's trace equals the observation of the rustc-compiled real parse"));
    out.assumptions = vec![
        "reference: canonical LR(1) driver, cross-checked against Earley on every explored word".into(),
        "rustc 1.95 compiles the emitted modules (opt-level 0, overflow checks and debug assertions on)".into(),
    ];
    out
}
