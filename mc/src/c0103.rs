//! C01 (language equality) and C03 (error position) — model layer (E2) plus real-code layer (E3).

use crate::common::*;
use crate::gramsweep::{all_seed_nbh, g, gsym, Spec};
use serde_json::json;

fn model_specs(tier: Tier) -> Vec<Spec> {
    match tier {
        Tier::Quick => {
            let mut v = vec![g(2, 2, 3, 3)];
            v.extend(all_seed_nbh(1, 1, 100_000));
            v
        }
        Tier::Thorough => {
            let mut v = vec![g(2, 2, 3, 3), g(2, 3, 4, 2), g(3, 2, 4, 2), gsym(2, 2, 4, 3), g(1, 3, 4, 3)];
            v.extend(all_seed_nbh(2, 1, 60_000));
            v
        }
    }
}

pub fn run(ctx: &Ctx, property: &'static str) -> Outcome {
    let mut out = Outcome::new("model_checking");
    let res = crate::pda::run_model_layer(ctx, property, &model_specs(ctx.tier), ctx.tier.pick(400.0, 3000.0));
    if res.acc.self_check_errors.iter().any(|e| e.starts_with("reference self-check")) {
        machinery_error(format!("{property}: {}", res.acc.self_check_errors.iter().find(|e| e.starts_with("reference self-check")).unwrap()));
    }
    let acc = res.acc;
    let bound = acc.get("grammars with a bound model");
    let unbound = acc.get("model unbound: emitted text not understood by the extractor") + acc.get("model unbound: driver loop differs from the modelled template");
    out.cov("states", json!(acc.get("configurations").max(1)));
    out.cov("transitions", json!(acc.get("token feeds").max(1)));
    out.cov("traces_validated_against_impl", json!(0));
    out.cov("model_bound", json!(unbound == 0 && bound > 0));
    out.cov("grammars", json!(res.grammars));
    out.cov("scopes", json!(res.scopes));
    out.cov("exhaustive", json!(res.scopes.iter().all(|s| s["completed"].as_bool().unwrap_or(false))));
    out.cov("histogram", json!(acc.counters));
    out.cov("maxima", json!(acc.maxima));
    out.cov("notes", json!(acc.self_check_errors));
    out.cov("samples", json!(acc.samples));
    out.violating_cases = acc.violating;
    out.findings = acc.findings;
    out
}
