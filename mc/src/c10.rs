//! C10 — static well-formedness rules are enforced and reported truthfully.
//! Explores all syntactically valid files of at most m items over a 204-item alphabet built from small
//! name pools (every combination of simultaneous violations occurs); oracle: R-validate's violation *set*.

use crate::common::*;
use crate::gramsweep::Acc;
use crate::reffront::*;
use rayon::prelude::*;
use serde_json::{json, Value};

pub fn item_alphabet() -> Vec<String> {
    let mut items = vec![];
    for x in ["A", "B", "T", "a"] {
        items.push(format!("start {x}"));
    }
    for k in ["Tok", "A", "tok"] {
        for vs in ["", "$T: ()", "$T: () $U: ()", "$T: () $T: ()", "$A: ()", "$t: ()", "$Tok: ()"] {
            items.push(format!("terminal {k} {{ {vs} }}"));
        }
    }
    for x in ["A", "B", "T", "a", "Tok", "_a", "_9"] {
        for fs in ["", "($T)", "(A)", "(B)", "(T)", "($A)", "($Z)", "(Z)", "{x: $T}", "{X: $T}", "{_: $T}", "(_: $A)", "{_x: $T}", "{_X: $T}", "{_: $Z}", "(_: Z)", "{x: Z}", "(Z Y)", "{x: $Z y: $Y}"] {
            items.push(format!("struct {x}{fs}"));
        }
    }
    for x in ["A", "B"] {
        for vs in [
            "",
            "V",
            "V W($T)",
            "V V($T)",
            "V($T) W($T)",
            "v",
            "V{x: $T} W{y: $T}",
            "V(Z)",
            // near misses: named fieldsets that differ only in `_` fields, or only in field names
            "V{x: $T _: $U} W{y: $T}",
            "V{_: $T} W{_: $U}",
            "V{x: $T _: $U} W{_: $T y: $U}",
            // cross-namespace near misses: the same name once as a nonterminal and once as a terminal
            "V(T) W($T)",
            "V(A) W($A)",
            "V{x: $T} W{x: T}",
            // a variant named like a nonterminal / a terminal is no clash
            "A",
            "T($T)",
            // violations inside variants: undefined symbols in named / `_` fields, upper-case field, lower-case variant next to a good one
            "V{x: $Z}",
            "V(_: Z)",
            "V{X: $T}",
            "V v",
            // two instances of the same rule violated inside one enum ("first error wins" must not depend on anything but the text)
            "V($T) W($T) X Y",
            "V V W W",
            "v w",
            // a unit-like variant before / between the two variants of a clash (positions must name the clashing ones)
            "U V($T) W($T)",
            "V($T) U W($T)",
            "U V($T) V",
        ] {
            items.push(format!("enum {x} {{ {vs} }}"));
        }
    }
    items
}

/// Capitalisation rules, systematically: every identifier of at most 4 characters over {a, Z, _, 9}
/// in every role that has a capitalisation rule (and as start symbol / referenced symbol).
pub fn name_probe_files() -> Vec<String> {
    let alphabet = ['a', 'Z', '_', '9'];
    let mut ids: Vec<String> = vec![];
    let mut level: Vec<String> = vec!["a".into(), "Z".into(), "_".into()];
    for _ in 0..4 {
        ids.extend(level.iter().cloned());
        let mut next = vec![];
        for s in &level {
            for c in alphabet {
                next.push(format!("{s}{c}"));
            }
        }
        level = next;
    }
    ids.retain(|s| s != "_");
    let mut out = vec![];
    for x in &ids {
        out.push(format!("start {x}\nstruct {x}\nterminal Tok {{}}"));
        out.push(format!("start A\nenum A {{ {x} W($T) }}\nterminal Tok {{ $T: () }}"));
        out.push(format!("start A\nstruct A(${x})\nterminal Tok {{ ${x}: () }}"));
        out.push(format!("start A\nstruct A\nterminal {x} {{}}"));
        out.push(format!("start A\nstruct A {{ {x}: $T }}\nterminal Tok {{ $T: () }}"));
        out.push(format!("start A\nenum A {{ V {{ y: $T {x}: $T }} }}\nterminal Tok {{ $T: () }}"));
        out.push(format!("start A\nstruct A({x})\nenum {x} {{ V }}\nterminal Tok {{}}"));
    }
    out
}

/// Large files with exactly one planted violation: the single-violation neighbourhood of four valid files that are
/// large in one dimension (k variants of one enum, k nonterminals, k terminals, k fields), the violation planted
/// at every pair of positions (i, j) from a set of boundary indices (0, 1, 2, 9, 10, 11, 15, 16, 17, ... 255, 256,
/// 257, k-2, k-1). Checks that a rule is enforced *everywhere* in a long list, not only near its beginning.
pub fn scaled_invalid_files(deep: bool) -> Vec<String> {
    let sizes: Vec<usize> = if deep { vec![12, 17, 18, 33, 34, 65, 66, 129, 130, 257, 258, 343] } else { vec![17, 33, 65, 258] };
    let mut out = vec![];
    for &k in &sizes {
        let mut b: Vec<usize> = [0usize, 1, 2, 8, 9, 10, 11, 15, 16, 17, 31, 32, 33, 63, 64, 65, 127, 128, 129, 255, 256, 257].iter().copied().filter(|x| *x < k).collect();
        b.extend([k - 2, k - 1]);
        b.sort();
        b.dedup();
        let digits = |i: usize| format!("$T{} $T{} $T{}", i / 49, i / 7 % 7, i % 7);
        // F1: one enum with k variants, pairwise different symbol sequences
        let f1 = |vname: &dyn Fn(usize) -> String, vfields: &dyn Fn(usize) -> String| -> String {
            let mut s = String::from("start E\nenum E {\n");
            for i in 0..k {
                s += &format!("    {}({})\n", vname(i), vfields(i));
            }
            s += "}\nstruct Other($T0)\nterminal Tok {\n";
            for t in 0..7 {
                s += &format!("    $T{t}: ()\n");
            }
            s += "}\n";
            s
        };
        // F2: k nonterminals ; F3: k terminals
        let f23 = |nname: &dyn Fn(usize) -> String, nfield: &dyn Fn(usize) -> String, tname: &dyn Fn(usize) -> String| -> String {
            let mut s = String::from("start N0\n");
            for i in 0..k {
                s += &format!("struct {}({})\n", nname(i), nfield(i));
            }
            s += "terminal Tok {\n";
            for i in 0..k {
                s += &format!("    ${}: ()\n", tname(i));
            }
            s += "}\n";
            s
        };
        // F4: one struct with k named fields
        let f4 = |fname: &dyn Fn(usize) -> String, fsym: &dyn Fn(usize) -> String| -> String {
            let mut s = String::from("start A\nstruct A {\n");
            for i in 0..k {
                s += &format!("    {}: {}\n", fname(i), fsym(i));
            }
            s += "}\nstruct B($T)\nterminal Tok {\n    $T: ()\n}\n";
            s
        };
        let v = |i: usize| format!("V{i}");
        let nn = |i: usize| format!("N{i}");
        let tn = |i: usize| format!("T{i}");
        let nf = |_: usize| "$T0".to_string();
        out.push(f1(&v, &digits));
        out.push(f23(&nn, &nf, &tn));
        out.push(f4(&|i| format!("f{i}"), &|_| "$T".to_string()));
        if k > 343 {
            continue;
        }
        for &j in &b {
            // violations at one position j
            out.push(f1(&|i| if i == j { format!("v{i}") } else { v(i) }, &digits)); // lower-case variant name
            out.push(f1(&v, &|i| if i == j { "$Zz $T0".to_string() } else { digits(i) })); // undefined terminal
            out.push(f1(&v, &|i| if i == j { "Zz $T0".to_string() } else { digits(i) })); // undefined nonterminal
            out.push(f1(&v, &|i| if i == j { "$Other".to_string() } else { digits(i) })); // a nonterminal's name used as a terminal
            out.push(f23(&|i| if i == j { format!("n{i}") } else { nn(i) }, &nf, &tn)); // lower-case nonterminal
            out.push(f23(&nn, &|i| if i == j { "Zz".to_string() } else { nf(i) }, &tn)); // undefined nonterminal
            out.push(f23(&nn, &nf, &|i| if i == j { format!("t{i}") } else { tn(i) })); // lower-case terminal
            out.push(f23(&|i| if i == j { "Tok".to_string() } else { nn(i) }, &nf, &tn)); // nonterminal named like the terminal enum
            out.push(f4(&|i| if i == j { format!("F{i}") } else { format!("f{i}") }, &|_| "$T".to_string())); // upper-case field name
            out.push(f4(&|i| format!("f{i}"), &|i| if i == j { "$Zz".to_string() } else { "$T".to_string() })); // undefined terminal in a field
            out.push(f4(&|i| format!("f{i}"), &|i| if i == j { "C".to_string() } else { "$T".to_string() })); // undefined nonterminal in a field
            for &i0 in &b {
                if i0 >= j {
                    continue;
                }
                // violations that involve two positions i0 < j
                out.push(f1(&|i| if i == j { v(i0) } else { v(i) }, &digits)); // variant name clash
                out.push(f1(&v, &|i| if i == j { digits(i0) } else { digits(i) })); // symbol sequence clash
                out.push(f23(&|i| if i == j { nn(i0) } else { nn(i) }, &nf, &tn)); // duplicate nonterminal
                out.push(f23(&nn, &nf, &|i| if i == j { tn(i0) } else { tn(i) })); // duplicate terminal
                out.push(f23(&|i| if i == j { tn(i0) } else { nn(i) }, &nf, &tn)); // nonterminal named like terminal i0
                out.push(f23(&nn, &nf, &|i| if i == j { nn(i0) } else { tn(i) })); // terminal named like nonterminal i0
            }
        }
    }
    out
}

#[derive(Debug, PartialEq, Eq)]
pub enum Verdict {
    Fine,
    Violation(String, Value, Value),
    /// the reference front end rejects the text (not a C10 input)
    NotSyntacticallyValid,
}

pub fn check_source(src: &str, acc: &mut Acc) -> Verdict {
    let Ok((file, _)) = parse_source(src) else { return Verdict::NotSyntacticallyValid };
    let v = violations(&file);
    acc.inc(&format!("files with {} simultaneous violations", v.len().min(4)));
    let r = catch(|| kiki::generate(src).map(|_| ()));
    let expected = json!({"violations_present": v.iter().map(|x| format!("{x:?}")).collect::<Vec<_>>()});
    match r {
        Err(p) => {
            acc.inc("outcome: panic");
            if v.is_empty() {
                Verdict::Fine // totality is C07's business
            } else {
                Verdict::Violation(format!("a file with {} violation(s) got past validation (generate then panicked: {})", v.len(), normalize_panic(&p)), expected, json!(format!("panic: {}", normalize_panic(&p))))
            }
        }
        Ok(Ok(())) => {
            acc.inc("outcome: Ok");
            if v.is_empty() {
                Verdict::Fine
            } else {
                Verdict::Violation(format!("generate returned Ok for a file with {} violation(s)", v.len()), expected, json!("Ok"))
            }
        }
        Ok(Err(e)) => match error_is_member(&e, &v) {
            None => {
                if matches!(e, kiki::KikiErr::TableConflict(_)) {
                    acc.inc("outcome: TableConflict");
                    if !v.is_empty() {
                        acc.inc("TableConflict reported for a file that also has violations (not constrained by the statement)");
                    }
                    Verdict::Fine
                } else {
                    acc.inc("outcome: lexical or parse error on a file the reference front end accepts (C09 territory)");
                    Verdict::Violation("the front end rejects a syntactically valid file".into(), json!("a validation verdict"), json!(format!("{e:?}")))
                }
            }
            Some(true) => {
                acc.inc("outcome: truthful validation error");
                Verdict::Fine
            }
            Some(false) => {
                acc.inc("outcome: untruthful validation error");
                Verdict::Violation(format!("the reported error {e:?} does not describe a violation present in the file"), expected, json!(format!("{e:?}")))
            }
        },
    }
}

fn finding(src: &str, what: String, e: Value, o: Value) -> Finding {
    Finding::new("validate_case", json!({"source": src}), format!("{what} — source {src:?}"), e, o)
}

pub fn run(ctx: &Ctx) -> Outcome {
    let mut out = Outcome::new("exploration");
    let m = ctx.tier.pick(3usize, 4usize);
    let items = item_alphabet();
    let n = items.len();
    // units: the first two items (or fewer)
    let mut units: Vec<Vec<usize>> = vec![vec![]];
    for a in 0..n {
        units.push(vec![a]);
    }
    let mut deep: Vec<Vec<usize>> = vec![];
    for a in 0..n {
        for b in 0..n {
            deep.push(vec![a, b]);
        }
    }
    let t0 = std::time::Instant::now();
    let budget = ctx.tier.pick(600.0, 3000.0);
    let run_file = |idx: &[usize], acc: &mut Acc| {
        let src: String = idx.iter().map(|i| items[*i].as_str()).collect::<Vec<_>>().join("\n");
        acc.inc("files");
        match check_source(&src, acc) {
            Verdict::Fine => {}
            Verdict::Violation(what, e, o) => acc.finding(finding(&src, what, e, o)),
            Verdict::NotSyntacticallyValid => acc.self_check_errors.push(format!("reference self-check: the reference front end rejects the generated file {src:?}")),
        }
    };
    let mut acc = Acc::default();
    for u in &units {
        run_file(u, &mut acc);
    }
    let accs: Vec<Acc> = deep
        .par_iter()
        .map(|u| {
            let mut acc = Acc::default();
            if t0.elapsed().as_secs_f64() > budget {
                acc.inc("units skipped by the wall-clock budget");
                return acc;
            }
            fn rec(idx: &mut Vec<usize>, n: usize, m: usize, f: &dyn Fn(&[usize], &mut Acc), acc: &mut Acc) {
                f(idx, acc);
                if idx.len() >= m {
                    return;
                }
                for a in 0..n {
                    idx.push(a);
                    rec(idx, n, m, f, acc);
                    idx.pop();
                }
            }
            let mut idx = u.clone();
            if m >= 2 {
                rec(&mut idx, n, m, &run_file, &mut acc);
            }
            acc
        })
        .collect();
    for a in accs {
        acc.merge(a);
    }
    // capitalisation rules over all short identifiers in every role
    let probe_accs: Vec<Acc> = name_probe_files()
        .par_iter()
        .map(|src| {
            let mut a = Acc::default();
            a.inc("files");
            a.inc("name-probe files (every identifier of <= 4 characters over {a, Z, _, 9} in 7 roles)");
            match check_source(src, &mut a) {
                Verdict::Violation(what, e, o) => a.finding(finding(src, what, e, o)),
                Verdict::NotSyntacticallyValid => a.self_check_errors.push(format!("reference self-check: the reference front end rejects the probe file {src:?}")),
                Verdict::Fine => {}
            }
            a
        })
        .collect();
    for a in probe_accs {
        acc.merge(a);
    }
    // every ordered pair of related names (prefixes, case variants, equal names) in every pair of roles:
    // equal names in one namespace are violations, equal names across namespaces are not
    let rel_accs: Vec<Acc> = crate::names::relation_sources(ctx.tier.pick(2, 3))
        .par_chunks(64)
        .map(|chunk| {
            let mut a = Acc::default();
            for src in chunk {
                a.inc("files");
                a.inc("name-relation files (all ordered pairs of names A[bB_1]* in 16 role pairs)");
                match check_source(src, &mut a) {
                    Verdict::Violation(what, e, o) => a.finding(finding(src, what, e, o)),
                    Verdict::NotSyntacticallyValid => a.self_check_errors.push(format!("reference self-check: the reference front end rejects the name-relation file {src:?}")),
                    Verdict::Fine => {}
                }
            }
            a
        })
        .collect();
    for a in rel_accs {
        acc.merge(a);
    }
    // large files with one planted violation at boundary positions
    let scaled = scaled_invalid_files(ctx.tier == Tier::Thorough);
    let scaled_accs: Vec<Acc> = scaled
        .par_chunks(16)
        .map(|chunk| {
            let mut a = Acc::default();
            for src in chunk {
                a.inc("files");
                a.inc("large files with one planted violation (or none) at boundary positions");
                match check_source(src, &mut a) {
                    Verdict::Violation(what, e, o) => {
                        let shown: String = if src.len() > 600 { format!("{} ... ({} bytes)", src.chars().take(200).collect::<String>(), src.len()) } else { src.clone() };
                        a.finding(Finding::new("validate_case", json!({"source": src}), format!("{what} — source {shown:?}"), e, o))
                    }
                    Verdict::NotSyntacticallyValid => a.self_check_errors.push(format!("reference self-check: the reference front end rejects a scaled file ({} bytes)", src.len())),
                    Verdict::Fine => {}
                }
            }
            a
        })
        .collect();
    for a in scaled_accs {
        acc.merge(a);
    }
    // the repository's own should-fail corpus and examples
    for (name, src) in crate::corpus::repo_sources() {
        acc.inc("files");
        acc.inc("corpus files");
        if let Verdict::Violation(what, e, o) = check_source(&src, &mut acc) {
            acc.finding(finding(&src, format!("{name}: {what}"), e, o));
        }
    }
    if let Some(e) = acc.self_check_errors.iter().find(|e| e.starts_with("reference self-check")) {
        machinery_error(format!("C10: {e}"));
    }
    let capped = acc.get("units skipped by the wall-clock budget") > 0;
    let files = acc.get("files");
    out.cov("evaluations", json!(files));
    out.cov("distinct_nontrivial", json!(files - acc.get("files with 0 simultaneous violations")));
    out.cov("rule", json!(format!("all sequences of at most {m} items over a {n}-item alphabet (start / terminal / struct / enum declarations over small name pools, including names that exist only in the other namespace, duplicates, wrong capitalisation and near-miss variant lists), joined by newlines; every file is a distinct text; non-trivial = the reference validator finds at least one violation in it")));
    out.cov("exhaustive", json!(!capped));
    out.cov("scopes", json!([{"name": format!("files of <= {m} items over {n} items"), "size": files, "completed": !capped, "exhaustive": !capped, "capped_by": if capped { json!("wall-clock budget") } else { Value::Null }}]));
    out.cov("histogram", json!(acc.counters));
    out.cov("samples", json!([format!("{}\n{}\n{}", items[1], items[40], items[90]), format!("{}\n{}", items[0], items[5])]));
    out.violating_cases = acc.violating;
    out.findings = acc.findings;
    out.assumptions = vec!["R-validate implements the catalogue of appendix C; membership (not equality) oracle: any violation present may be the one reported".into()];
    out
}

pub fn replay(kind: &str, case: &Value) -> Option<Vec<Finding>> {
    if kind != "validate_case" {
        return None;
    }
    let src = case["source"].as_str()?;
    let mut acc = Acc::default();
    Some(match check_source(src, &mut acc) {
        Verdict::Violation(what, e, o) => vec![finding(src, what, e, o)],
        _ => vec![],
    })
}
