mod c18;
mod common;
mod replay;
mod sha256;

use common::*;

fn usage() -> ! {
    eprintln!("usage: kiki-mc check <ID> quick|thorough | kiki-mc replay <file>");
    std::process::exit(2);
}

fn main() {
    let args: Vec<String> = std::env::args().collect();
    install_quiet_panic_hook();
    if let Err(e) = sha256::self_check() {
        machinery_error(e);
    }
    match args.get(1).map(|s| s.as_str()) {
        Some("check") => {
            let id = args.get(2).cloned().unwrap_or_else(|| usage());
            let tier = match args.get(3).map(|s| s.as_str()) {
                Some("quick") | None => Tier::Quick,
                Some("thorough") => Tier::Thorough,
                _ => usage(),
            };
            let ctx = Ctx::new(&id, tier);
            let outcome = match id.as_str() {
                "C18" => c18::run(&ctx),
                _ => machinery_error(format!("no check for property {id}")),
            };
            std::process::exit(finalize(&ctx, outcome));
        }
        Some("replay") => {
            let path = args.get(2).cloned().unwrap_or_else(|| usage());
            std::process::exit(replay::replay_file(&path));
        }
        _ => usage(),
    }
}
