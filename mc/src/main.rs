mod c0103;
mod c05;
mod c06;
mod c07;
mod c08;
mod c09;
mod c10;
mod c12;
mod c13;
mod c14;
mod c15;
mod c16;
mod reffront;
mod refkiki;
mod corpus;
mod reflex;
mod c18;
mod common;
mod extract;
mod gramsweep;
mod names;
mod pda;
mod pspace;
mod reallayer;
mod rustrun;
mod refgram;
mod replay;
mod scaled;
mod scopes;
mod sha256;
mod typedefs;

use common::*;

fn usage() -> ! {
    eprintln!("usage: kiki-mc check <ID> quick|thorough | kiki-mc replay <file>");
    std::process::exit(2);
}

fn main() {
    install_quiet_panic_hook();
    run_main(real_main);
}

fn real_main() {
    let args: Vec<String> = std::env::args().collect();
    // (child modes skip the self-check: the parent has run it, and tens of thousands of children are started)
    if !matches!(args.get(1).map(|s| s.as_str()), Some("c14-history")) {
        if let Err(e) = sha256::self_check() {
            machinery_error(e);
        }
    }
    match args.get(1).map(|s| s.as_str()) {
        Some("check") => {
            let id = args.get(2).cloned().unwrap_or_else(|| usage());
            let tier = match args.get(3).map(|s| s.as_str()) {
                Some("quick") | None => Tier::Quick,
                Some("thorough") => Tier::Thorough,
                _ => usage(),
            };
            // a check that does not finish (the subject hangs in a check that has no per-input watchdog - only C07
            // decides hangs - or the harness does) ends as a machinery exit instead of running forever
            let limit: u64 = std::env::var("VERIF_WATCHDOG_S").ok().and_then(|s| s.parse().ok()).unwrap_or(match tier {
                Tier::Quick => 3600,
                Tier::Thorough => 12 * 3600,
            });
            let idw = id.clone();
            std::thread::spawn(move || {
                std::thread::sleep(std::time::Duration::from_secs(limit));
                println!("MACHINERY-ERROR check {idw} did not finish within {limit} s (VERIF_WATCHDOG_S): a hang of generate in a check without a per-input watchdog (C07 decides hangs), or of the harness");
                std::process::exit(2);
            });
            let ctx = Ctx::new(&id, tier);
            let outcome = match id.as_str() {
                "C18" => c18::run(&ctx),
                "C01" => c0103::run(&ctx, "C01"),
                "C02" => c0103::run(&ctx, "C02"),
                "C03" => c0103::run(&ctx, "C03"),
                "C05" => c05::run(&ctx),
                "C06" => c06::run(&ctx),
                "C07" => c07::run(&ctx),
                "C08" => c08::run(&ctx),
                "C09" => c09::run(&ctx),
                "C10" => c10::run(&ctx),
                "C12" => c12::run(&ctx),
                "C13" => c13::run(&ctx),
                "C14" => c14::run(&ctx),
                "C15" => c15::run(&ctx),
                "C16" => c16::run(&ctx),
                "C04" => gramsweep::run_c04(&ctx),
                "C11" => gramsweep::run_c11(&ctx),
                "C17" => gramsweep::run_c17(&ctx),
                _ => machinery_error(format!("no check for property {id}")),
            };
            std::process::exit(finalize(&ctx, outcome));
        }
        Some("c07-family") => {
            let tier = if args.get(3).map(|s| s.as_str()) == Some("thorough") { Tier::Thorough } else { Tier::Quick };
            c07::child_family(args.get(2).map(|s| s.as_str()).unwrap_or(""), tier, args.get(4).map(|s| s.as_str()));
        }
        Some("c07-probe") => c07::child_probe(args.get(2).and_then(|s| s.parse().ok()).unwrap_or(usize::MAX)),
        Some("c07-growth") => c07::child_growth(args.get(2).and_then(|s| s.parse().ok()).unwrap_or(usize::MAX), args.get(3).and_then(|s| s.parse().ok()).unwrap_or(0)),
        Some("c07-one") => c07::child_one(args.get(2).map(|s| s.as_str()).unwrap_or("")),
        Some("c14-history") => c14::child_history(&args[2..]),
        Some("scaled-report") => {
            // tooling: what kiki and the reference say about every member of the scaled families
            let deep = args.get(2).map(|s| s == "deep").unwrap_or(false);
            for (i, f) in scaled::families(deep).iter().enumerate() {
                let case = gramsweep::Case::new(f.g.clone(), scaled::presentation(f, i));
                let t0 = std::time::Instant::now();
                let gen = gramsweep::generate(&case.rendered.source);
                let gs = t0.elapsed().as_secs_f64();
                let t1 = std::time::Instant::now();
                let rf = refgram::reference(&case.g);
                let rs = t1.elapsed().as_secs_f64();
                let (states, class) = match &rf {
                    Ok(r) => (r.lalr.states.len(), r.class.name().to_string()),
                    Err(e) => (0, format!("reference error: {e}")),
                };
                let bound = match &gen {
                    gramsweep::Gen::Ok(text) => match gramsweep::bind(&case, text) {
                        Ok(b) => format!("bound, {} emitted states, {} bytes", b.ex.action.len(), text.len()),
                        Err(e) => format!("UNBOUND: {e}"),
                    },
                    _ => String::new(),
                };
                println!("{:40} kiki={} ({gs:.2}s) reference: {class}, {states} LALR states ({rs:.2}s) {bound}", f.name, gen.class());
            }
        }
        Some("scope-size") => {
            // tooling: kiki-mc scope-size n t p k [sym]
            let v: Vec<usize> = args[2..6].iter().map(|s| s.parse().unwrap()).collect();
            let sc = scopes::Scope { n: v[0], t: v[1], p: v[2], k: v[3], symmetry: args.get(6).is_some(), only_cyclic: false };
            let rhss = scopes::all_rhs(sc.n, sc.t, sc.k);
            let mut n = 0u64;
            let mut pres = 0u64;
            for unit in scopes::work_units(&sc, u128::MAX) {
                scopes::for_each_completion(&sc, &rhss, &unit, &mut |g| {
                    n += 1;
                    scopes::for_each_presentation(&g, &mut |_| pres += 1);
                });
            }
            println!("{} raw={} enumerated={} with all presentations={}", sc.name(), scopes::scope_size(&sc), n, pres);
        }
        Some("free-run") => {
            print!("{}", c14::free_run_report(args.get(2).and_then(|s| s.parse().ok()).unwrap_or(0)));
        }
        Some("replay") => {
            let path = args.get(2).cloned().unwrap_or_else(|| usage());
            std::process::exit(replay::replay_file(&path));
        }
        _ => usage(),
    }
}
