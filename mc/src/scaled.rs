//! Scaled families: grammars that are large in exactly one dimension (at most 62 terminals, the limit of the reference's bitsets; precedence levels, length of one
//! right-hand side, number of alternatives, length of a unit chain, number of automaton states, number
//! of nonterminals / terminals / rules beyond 9, 15, 26, 63, 99, 255). The exhaustive scopes cover every
//! *shape* of small grammars; these cover the *numbers* that small grammars never reach: two-digit and
//! three-digit indices, more than 256 states, more than 64 symbols in a set, right-hand sides longer than
//! a machine word has bits for a mask.

use crate::refgram::{Grammar, Sym};
use crate::scopes::Presentation;

pub struct Scaled {
    pub name: String,
    pub g: Grammar,
    /// word depth that reaches the sentences that make the family interesting
    pub depth: usize,
}

fn t(i: usize) -> Sym {
    Sym::T(i as u8)
}
fn n(i: usize) -> Sym {
    Sym::N(i as u8)
}

/// L precedence levels of left-associative binary operators over parenthesised atoms.
pub fn expr(levels: usize) -> Scaled {
    // nonterminals: E0..E{L-1}, A = L ; terminals: op0..op{L-1}, lparen = L, rparen = L+1, id = L+2
    let l = levels;
    let mut prods = vec![];
    for i in 0..l {
        let next = i + 1; // E{i+1}, or A for the last level (index l)
        prods.push((i as u8, vec![n(i), t(i), n(next)]));
        prods.push((i as u8, vec![n(next)]));
    }
    prods.push((l as u8, vec![t(l), n(0), t(l + 1)]));
    prods.push((l as u8, vec![t(l + 2)]));
    Scaled { name: format!("expr({l} levels)"), g: Grammar { n: l + 1, t: l + 3, prods }, depth: 5 }
}

/// One struct with k fields: t0 t1 ... (distinct terminals, cycling through `terms`).
pub fn seq(k: usize, terms: usize) -> Scaled {
    Scaled { name: format!("seq({k} fields over {terms} terminals)"), g: Grammar { n: 1, t: terms, prods: vec![(0, (0..k).map(|i| t(i % terms)).collect())] }, depth: k + 1 }
}

/// A long right-hand side inside a context: `Top -> S x`, `S -> a a x a^(k-3)` (a state with a small dot acts on
/// the lookahead on which the long rule is reduced).
pub fn seqctx(k: usize) -> Scaled {
    let mut rhs = vec![t(0), t(0), t(1)];
    rhs.extend((3..k).map(|_| t(0)));
    Scaled { name: format!("seq-in-context({k} fields)"), g: Grammar { n: 2, t: 2, prods: vec![(0, vec![n(1), t(1)]), (1, rhs)] }, depth: k + 2 }
}

/// k alternatives `S -> t_i N_i`, `N_i -> t_i`.
pub fn alts(k: usize) -> Scaled {
    let mut prods = vec![];
    for i in 0..k {
        prods.push((0u8, vec![t(i), n(i + 1)]));
    }
    for i in 0..k {
        prods.push(((i + 1) as u8, vec![t(i)]));
    }
    Scaled { name: format!("alts({k})"), g: Grammar { n: k + 1, t: k, prods }, depth: 3 }
}

/// Unit chain `N0 -> N1 -> ... -> N{k-1} -> t0 | t1 N0`.
pub fn chain(k: usize) -> Scaled {
    let mut prods = vec![];
    for i in 0..k - 1 {
        prods.push((i as u8, vec![n(i + 1)]));
    }
    prods.push(((k - 1) as u8, vec![t(0)]));
    prods.push(((k - 1) as u8, vec![t(1), n(0)]));
    Scaled { name: format!("chain({k})"), g: Grammar { n: k, t: 2, prods }, depth: 4 }
}

/// k alternatives of one enum: `S -> t_i` for i < k (one enum with k variants), plus `S -> t_0 S`.
pub fn wide(k: usize) -> Scaled {
    let mut prods: Vec<(u8, Vec<Sym>)> = (0..k).map(|i| (0u8, vec![t(i % 62)])).collect();
    // beyond 62 terminals: two-token alternatives t_i t_j
    for (i, p) in prods.iter_mut().enumerate() {
        if i >= 62 {
            *p = (0u8, vec![t(i % 62), t(i / 62), t(1)]);
        }
    }
    prods.push((0, vec![t(0), t(0), n(0)]));
    Scaled { name: format!("wide({k} variants)"), g: Grammar { n: 1, t: k.min(62), prods }, depth: 4 }
}

/// Many states: `S -> A_i`, `A_i -> a^i b_i` - the automaton has about k^2/2 states.
pub fn staircase(k: usize) -> Scaled {
    // terminals: a = 0, b_i = i + 1
    let mut prods = vec![];
    for i in 0..k {
        prods.push((0u8, vec![n(i + 1)]));
    }
    for i in 0..k {
        let mut rhs: Vec<Sym> = (0..=i).map(|_| t(0)).collect();
        rhs.push(t(i + 1));
        prods.push(((i + 1) as u8, rhs));
    }
    Scaled { name: format!("staircase({k})"), g: Grammar { n: k + 1, t: k + 1, prods }, depth: k + 2 }
}

/// Nested lists to depth d: `L_i -> eps | L_i t_i L_{i+1} t_i'`, innermost `L_d -> t`.
pub fn nested(d: usize) -> Scaled {
    let mut prods = vec![];
    for i in 0..d {
        prods.push((i as u8, vec![]));
        prods.push((i as u8, vec![n(i), t(2 * i), n(i + 1), t(2 * i + 1)]));
    }
    prods.push((d as u8, vec![t(2 * d)]));
    Scaled { name: format!("nested({d})"), g: Grammar { n: d + 1, t: 2 * d + 1, prods }, depth: 6 }
}

/// k copies of the classic LALR(1)-but-not-SLR(1) grammar (S -> L = R | R, L -> * R | id, R -> L), each behind its
/// own leading terminal: lookahead sets that SLR would get wrong, in many states at once.
pub fn lalr(k: usize) -> Scaled {
    // nonterminals: S = 0, then per copy i: S_i = 1+3i, L_i = 2+3i, R_i = 3+3i; terminals per copy: c_i, eq_i, star_i, id_i
    let mut prods = vec![];
    for i in 0..k {
        prods.push((0u8, vec![t(4 * i), n(1 + 3 * i)]));
    }
    for i in 0..k {
        let (s_, l_, r_) = (1 + 3 * i, 2 + 3 * i, 3 + 3 * i);
        prods.push((s_ as u8, vec![n(l_), t(4 * i + 1), n(r_)]));
        prods.push((s_ as u8, vec![n(r_)]));
        prods.push((l_ as u8, vec![t(4 * i + 2), n(r_)]));
        prods.push((l_ as u8, vec![t(4 * i + 3)]));
        prods.push((r_ as u8, vec![n(l_)]));
    }
    Scaled { name: format!("lalr-not-slr x {k}"), g: Grammar { n: 1 + 3 * k, t: 4 * k, prods }, depth: 5 }
}

/// k variants of one enum, all of the same shape: `S -> t_a t_b t_c` with (a, b, c) the base-7 digits of the variant
/// number - a reduction by the wrong rule builds a well-typed but wrong tree.
pub fn digits(k: usize) -> Scaled {
    assert!(k <= 343);
    let prods = (0..k).map(|i| (0u8, vec![t(i / 49), t(i / 7 % 7), t(i % 7)])).collect();
    Scaled { name: format!("same-shape variants({k})"), g: Grammar { n: 1, t: 7, prods }, depth: 4 }
}

/// Conflicting grammars with large states (C11, C04): `S -> E u_i (i < f) | u_0 X`, `E -> a_j (j < a) | eps`, `X -> a_0`:
/// the start state holds about a*f items, and `E -> . [u_0]` conflicts with the shift of u_0.
pub fn conflict_wide(a: usize, f: usize) -> Scaled {
    // nonterminals S=0, E=1, X=2 ; terminals u_0..u_{f-1}, then a_0..a_{a-1}
    let mut prods = vec![];
    for i in 0..f {
        prods.push((0u8, vec![n(1), t(i)]));
    }
    prods.push((0u8, vec![t(0), n(2)]));
    for j in 0..a {
        prods.push((1u8, vec![t(f + j)]));
    }
    prods.push((1u8, vec![]));
    prods.push((2u8, vec![t(f)]));
    Scaled { name: format!("conflict in a wide state({a} alternatives x {f} followers)"), g: Grammar { n: 3, t: a + f, prods }, depth: 3 }
}

/// Ambiguous expressions with k binary operators: every operator conflicts with every other in k states.
pub fn ambiguous(k: usize) -> Scaled {
    let mut prods = vec![(0u8, vec![t(k)])];
    for i in 0..k {
        prods.push((0u8, vec![n(0), t(i), n(0)]));
    }
    Scaled { name: format!("ambiguous expressions({k} operators)"), g: Grammar { n: 1, t: k + 1, prods }, depth: 3 }
}

/// k copies of the LR(1)-but-not-LALR(1) grammar behind distinct leading terminals: reduce/reduce conflicts in k merged states.
pub fn lr1_not_lalr(k: usize) -> Scaled {
    // per copy i: nonterminals S_i = 1+3i, A_i, B_i ; terminals a,b,c,d,e = 6i+1..6i+5, lead = 6i
    let mut prods = vec![];
    for i in 0..k {
        prods.push((0u8, vec![t(6 * i), n(1 + 3 * i)]));
    }
    for i in 0..k {
        let (s_, a_, b_) = ((1 + 3 * i) as u8, 2 + 3 * i, 3 + 3 * i);
        let x = |j: usize| t(6 * i + j);
        prods.push((s_, vec![x(1), n(a_), x(4)]));
        prods.push((s_, vec![x(2), n(b_), x(4)]));
        prods.push((s_, vec![x(1), n(b_), x(5)]));
        prods.push((s_, vec![x(2), n(a_), x(5)]));
        prods.push((a_ as u8, vec![x(3)]));
        prods.push((b_ as u8, vec![x(3)]));
    }
    Scaled { name: format!("lr1-not-lalr x {k}"), g: Grammar { n: 1 + 3 * k, t: 6 * k, prods }, depth: 4 }
}

pub fn families(deep: bool) -> Vec<Scaled> {
    let mut v = vec![];
    for k in if deep { vec![16, 17, 100, 255, 256, 257, 258, 343] } else { vec![257, 343] } {
        v.push(digits(k));
    }
    for (a, f) in if deep { vec![(3, 3), (8, 8), (15, 17), (16, 16), (16, 17), (16, 20), (30, 30), (40, 20)] } else { vec![(16, 17), (16, 20)] } {
        v.push(conflict_wide(a, f));
    }
    for k in if deep { vec![2, 9, 10, 11, 16, 17, 20] } else { vec![10, 16] } {
        v.push(ambiguous(k));
    }
    for k in if deep { vec![1, 2, 9, 10] } else { vec![2, 10] } {
        v.push(lr1_not_lalr(k));
    }
    for k in if deep { vec![1, 3, 4, 9, 15] } else { vec![3, 9] } {
        v.push(lalr(k));
    }
    for l in if deep { vec![1, 7, 8, 9, 10, 11, 15, 16, 17, 25, 26, 31, 32, 33, 50, 59] } else { vec![8, 9, 10, 16, 26, 33, 52] } {
        v.push(expr(l));
    }
    for k in if deep { vec![14, 15, 16, 17, 31, 32, 33, 63, 64, 65, 100, 127, 128, 129, 200, 254, 255, 256, 257, 258, 259, 300, 511, 512, 513, 514, 600] } else { vec![16, 17, 32, 33, 64, 65, 128, 129, 255, 256, 257, 258, 300, 514] } {
        v.push(seq(k, 62.min(k)));
        v.push(seq(k, 1));
    }
    for k in if deep { vec![16, 17, 64, 65, 255, 256, 257, 258, 259, 260, 300, 513, 514, 515] } else { vec![17, 256, 257, 258, 259, 515] } {
        v.push(seqctx(k));
        // the same with the long rule declared first (rule numbers, and with them every packed key, change parity)
        let mut r = seqctx(k);
        r.name += ", long rule declared first";
        v.push(r);
    }
    for k in if deep { vec![9, 10, 11, 16, 26, 27, 32, 33, 61, 62] } else { vec![10, 11, 27, 62] } {
        v.push(alts(k));
    }
    for k in if deep { vec![9, 10, 11, 26, 27, 64, 65, 100, 101, 128, 129, 249] } else { vec![10, 27, 65, 101, 129] } {
        v.push(chain(k));
    }
    for k in if deep { vec![9, 10, 11, 16, 17, 26, 27, 63, 64, 100, 101, 255, 256, 257, 300] } else { vec![10, 11, 27, 64, 101, 257] } {
        v.push(wide(k));
    }
    for k in if deep { vec![4, 10, 15, 16, 22, 23, 30, 45] } else { vec![10, 23] } {
        v.push(staircase(k));
    }
    for d in if deep { vec![2, 5, 9, 10, 16, 30] } else { vec![5, 10] } {
        v.push(nested(d));
    }
    v
}

/// The presentation of member `i` of the list: rotating styles (named / tuple, `_` masks, struct where possible).
pub fn presentation(s: &Scaled, i: usize) -> Presentation {
    let mut p = Presentation::rotating(&s.g, i as u64 * 131 + 7);
    if s.name.contains("seq-in-context") {
        p.decl_order = if s.name.contains("declared first") { vec![1, 0] } else { vec![0, 1] };
    }
    p.names.insert("depth".into(), s.depth.to_string());
    p
}
