//! Plumbing shared by all checks: run context, findings, known-findings file, replay files,
//! evidence files, panic capture.

use serde_json::{json, Map, Value};
use std::cell::RefCell;
use std::collections::BTreeMap;
use std::path::PathBuf;
use std::time::Instant;

#[derive(Clone, Copy, Debug, PartialEq, Eq)]
pub enum Tier {
    Quick,
    Thorough,
}

impl Tier {
    pub fn name(self) -> &'static str {
        match self {
            Tier::Quick => "quick",
            Tier::Thorough => "thorough",
        }
    }
    pub fn pick<T>(self, quick: T, thorough: T) -> T {
        match self {
            Tier::Quick => quick,
            Tier::Thorough => thorough,
        }
    }
}

pub struct Ctx {
    pub id: String,
    pub tier: Tier,
    pub seed: u64,
    pub root: PathBuf,
    pub start: Instant,
}

impl Ctx {
    pub fn new(id: &str, tier: Tier) -> Ctx {
        let seed = std::env::var("VERIF_SEED").ok().and_then(|s| s.parse::<i64>().ok()).unwrap_or(0);
        Ctx { id: id.to_string(), tier, seed: seed as u64, root: root(), start: Instant::now() }
    }
    pub fn elapsed(&self) -> f64 {
        self.start.elapsed().as_secs_f64()
    }
}

pub fn root() -> PathBuf {
    if let Ok(r) = std::env::var("VERIF_ROOT") {
        return PathBuf::from(r);
    }
    PathBuf::from("/verif")
}

pub fn repo() -> PathBuf {
    PathBuf::from(std::env::var("VERIF_REPO").unwrap_or_else(|_| "/repo".to_string()))
}

/// A candidate violation: one concrete case on which the real code departs from the oracle.
#[derive(Clone, Debug)]
pub struct Finding {
    /// Replay kind, understood by `replay::run_case`.
    pub kind: String,
    /// The minimal case (input / grammar + word / schedule / history), canonical JSON.
    pub case: Value,
    pub what: String,
    pub expected: Value,
    pub observed: Value,
    /// Structural class of the failure, for known findings that are a family of inputs with one cause
    /// (the class predicate is computed from the case by the check, never from the observation alone).
    pub class: Option<String>,
}

impl Finding {
    pub fn new(kind: &str, case: Value, what: impl Into<String>, expected: Value, observed: Value) -> Finding {
        Finding { kind: kind.to_string(), case, what: what.into(), expected, observed, class: None }
    }
    pub fn with_class(mut self, class: &str) -> Finding {
        self.class = Some(class.to_string());
        self
    }
    /// Key used in known_findings.json: SHA-256 of kind + canonical case.
    pub fn key(&self) -> String {
        let text = format!("{}\n{}", self.kind, serde_json::to_string(&self.case).unwrap());
        crate::sha256::hex(text.as_bytes())
    }
}

pub struct Outcome {
    pub level: &'static str,
    pub coverage: Map<String, Value>,
    pub assumptions: Vec<String>,
    pub findings: Vec<Finding>,
    /// Total number of violating cases seen (findings may be a capped list of them).
    pub violating_cases: u64,
}

impl Outcome {
    pub fn new(level: &'static str) -> Outcome {
        Outcome { level, coverage: Map::new(), assumptions: vec![], findings: vec![], violating_cases: 0 }
    }
    pub fn cov(&mut self, key: &str, v: Value) {
        self.coverage.insert(key.to_string(), v);
    }
    pub fn push(&mut self, f: Finding) {
        self.violating_cases += 1;
        if self.findings.len() < MAX_FINDINGS_KEPT {
            self.findings.push(f);
        }
    }
    pub fn absorb(&mut self, fs: Vec<Finding>) {
        for f in fs {
            self.push(f);
        }
    }
}

pub const MAX_FINDINGS_KEPT: usize = 400;
pub const MAX_VIOLATION_LINES: usize = 20;

pub struct MachineryError(pub String);

pub fn machinery_error(msg: impl AsRef<str>) -> ! {
    println!("MACHINERY-ERROR {}", msg.as_ref());
    std::process::exit(2);
}

#[derive(Clone, Debug)]
struct KnownEntry {
    property: String,
    status: String,
    key: String,
    class: String,
    what: String,
}

fn load_known(root: &std::path::Path) -> Vec<KnownEntry> {
    let path = root.join("known_findings.json");
    let Ok(text) = std::fs::read_to_string(&path) else { return vec![] };
    let v: Value = match serde_json::from_str(&text) {
        Ok(v) => v,
        Err(e) => machinery_error(format!("known_findings.json does not parse: {e}")),
    };
    let mut out = vec![];
    for e in v.as_array().cloned().unwrap_or_default() {
        out.push(KnownEntry {
            property: e["property"].as_str().unwrap_or("").to_string(),
            status: e["status"].as_str().unwrap_or("").to_string(),
            key: e["key"].as_str().unwrap_or("").to_string(),
            class: e["class"].as_str().unwrap_or("").to_string(),
            what: e["what"].as_str().unwrap_or("").to_string(),
        });
    }
    out
}

/// Writes evidence and replay files, prints KNOWN-FINDING / VIOLATION lines, returns the exit code.
pub fn finalize(ctx: &Ctx, mut out: Outcome) -> i32 {
    let known = load_known(&ctx.root);
    // de-duplicate by key, keep first
    let mut by_key: BTreeMap<String, Finding> = BTreeMap::new();
    let mut order: Vec<String> = vec![];
    for f in out.findings.drain(..) {
        let k = f.key();
        if !by_key.contains_key(&k) {
            order.push(k.clone());
            by_key.insert(k, f);
        }
    }
    let replay_dir = ctx.root.join("replays").join(&ctx.id);
    let _ = std::fs::remove_dir_all(&replay_dir);
    let mut known_seen: Vec<String> = vec![];
    let mut unlisted: Vec<(String, Finding)> = vec![];
    let mut class_counts: BTreeMap<String, (u64, String)> = BTreeMap::new();
    for k in &order {
        let f = &by_key[k];
        if let Some(e) = known.iter().find(|e| e.status == "known" && e.property == ctx.id && !e.key.is_empty() && &e.key == k) {
            println!("KNOWN-FINDING: property={} {}", ctx.id, e.what);
            known_seen.push(e.what.clone());
        } else if let Some(e) = known.iter().find(|e| e.status == "known" && e.property == ctx.id && !e.class.is_empty() && f.class.as_deref() == Some(e.class.as_str())) {
            // a listed family of inputs with one structural cause: one line per class, with a count and an example
            let c = class_counts.entry(e.class.clone()).or_insert((0, e.what.clone()));
            c.0 += 1;
        } else {
            unlisted.push((k.clone(), f.clone()));
        }
    }
    for (class, (n, what)) in &class_counts {
        let example = order.iter().filter_map(|k| by_key.get(k)).find(|f| f.class.as_deref() == Some(class.as_str())).map(|f| f.what.clone()).unwrap_or_default();
        println!("KNOWN-FINDING: property={} {} [class {class}: {n} case(s) in this run, e.g. {}]", ctx.id, what, example.chars().take(160).collect::<String>());
        known_seen.push(format!("{what} [{n} cases]"));
    }
    // Confirm each unlisted finding by replaying it twice, without the explorer.
    let mut confirmed: Vec<(String, Finding)> = vec![];
    let mut unstable: Vec<Value> = vec![];
    for (k, f) in unlisted.into_iter() {
        if confirmed.len() >= MAX_VIOLATION_LINES {
            confirmed.push((k, f));
            continue;
        }
        match crate::replay::run_case(&ctx.id, &f.kind, &f.case) {
            None => confirmed.push((k, f)), // no single-case replayer for this kind: trust the sweep
            Some(first) => {
                let second = crate::replay::run_case(&ctx.id, &f.kind, &f.case).unwrap_or_default();
                let a: Vec<Value> = first.iter().map(|x| x.observed.clone()).collect();
                let b: Vec<Value> = second.iter().map(|x| x.observed.clone()).collect();
                if a != b || first.is_empty() {
                    unstable.push(json!({"kind": f.kind, "case": f.case, "sweep_observed": f.observed, "replay1": a, "replay2": b}));
                } else {
                    confirmed.push((k, f));
                }
            }
        }
    }
    if !unstable.is_empty() {
        let p = ctx.root.join("replays").join(format!("{}-unstable.json", ctx.id));
        let _ = std::fs::create_dir_all(p.parent().unwrap());
        let _ = std::fs::write(&p, serde_json::to_string_pretty(&Value::Array(unstable.clone())).unwrap());
        machinery_error(format!(
            "{} finding(s) of {} did not reproduce identically on replay (harness nondeterminism); see {}",
            unstable.len(),
            ctx.id,
            p.display()
        ));
    }
    let mut printed = 0usize;
    let mut replay_paths = vec![];
    if !confirmed.is_empty() {
        std::fs::create_dir_all(&replay_dir).ok();
    }
    for (n, (k, f)) in confirmed.iter().enumerate() {
        if n >= MAX_VIOLATION_LINES {
            break;
        }
        let path = replay_dir.join(format!("{}-{}.json", ctx.tier.name(), n));
        let body = json!({
            "property": ctx.id, "kind": f.kind, "case": f.case, "what": f.what,
            "expected": f.expected, "observed": f.observed, "tier": ctx.tier.name(), "key": k,
            "how_to_replay": format!("./check replay {}", path.display()),
        });
        std::fs::write(&path, serde_json::to_string_pretty(&body).unwrap()).ok();
        println!("VIOLATION property={} replay={}", ctx.id, path.display());
        println!("  what: {}", f.what);
        replay_paths.push(path.display().to_string());
        printed += 1;
    }
    let unlisted_total = confirmed.len();
    if unlisted_total > printed {
        println!("  ... and {} more distinct violating cases kept ({} violating cases seen in total)", unlisted_total - printed, out.violating_cases);
    }
    out.coverage.insert("known_findings_seen".into(), json!(known_seen));
    out.coverage.insert("violating_cases_seen".into(), json!(out.violating_cases));
    out.coverage.insert("replays_written".into(), json!(replay_paths));
    let evidence = json!({
        "property_id": ctx.id,
        "tier": ctx.tier.name(),
        "seed": ctx.seed,
        "level": out.level,
        "coverage": Value::Object(out.coverage),
        "assumptions": out.assumptions,
        "wall_s": (ctx.elapsed() * 1000.0).round() / 1000.0,
        "violations": unlisted_total,
    });
    // VERIF_EVIDENCE_DIR: used by tools/seeded.py and tools/mutants.py, whose runs against a deliberately
    // broken tree must not overwrite the evidence of the real one
    let evdir = std::env::var_os("VERIF_EVIDENCE_DIR").map(PathBuf::from).unwrap_or_else(|| ctx.root.join("evidence"));
    std::fs::create_dir_all(&evdir).ok();
    let evpath = evdir.join(format!("{}.json", ctx.id));
    if let Err(e) = std::fs::write(&evpath, serde_json::to_string_pretty(&evidence).unwrap() + "\n") {
        machinery_error(format!("cannot write {}: {e}", evpath.display()));
    }
    if unlisted_total > 0 {
        1
    } else {
        println!("OK property={} tier={} wall_s={:.1}", ctx.id, ctx.tier.name(), ctx.elapsed());
        0
    }
}

// ---------------------------------------------------------------------------------------------
// Panic capture

thread_local! {
    static LAST_PANIC: RefCell<Option<String>> = const { RefCell::new(None) };
}

pub fn install_quiet_panic_hook() {
    std::panic::set_hook(Box::new(|info| {
        let msg = if let Some(s) = info.payload().downcast_ref::<&str>() {
            s.to_string()
        } else if let Some(s) = info.payload().downcast_ref::<String>() {
            s.clone()
        } else {
            "<non-string panic payload>".to_string()
        };
        let loc = info.location().map(|l| format!("{}:{}", l.file(), l.line())).unwrap_or_default();
        let short: String = msg.chars().take(160).collect();
        LAST_PANIC.with(|p| *p.borrow_mut() = Some(format!("{short} @ {loc}")));
        if let Ok(mut g) = LAST_PANIC_ANY_THREAD.lock() {
            *g = Some(format!("{short} @ {loc}"));
        }
    }));
}

/// The message of the most recent panic on any thread (for panics of the harness itself, which nobody catches).
pub static LAST_PANIC_ANY_THREAD: std::sync::Mutex<Option<String>> = std::sync::Mutex::new(None);

/// Runs the whole program; a panic that escapes (a defect of the harness, never a verdict) becomes exit 2 with a message.
pub fn run_main(f: impl FnOnce()) {
    if std::panic::catch_unwind(std::panic::AssertUnwindSafe(f)).is_err() {
        let msg = LAST_PANIC_ANY_THREAD.lock().ok().and_then(|g| g.clone()).unwrap_or_else(|| "<panic>".into());
        machinery_error(format!("the harness itself panicked: {msg}"));
    }
}

/// Runs `f`, converting a panic into `Err(message @ file:line)`.
pub fn catch<T>(f: impl FnOnce() -> T) -> Result<T, String> {
    LAST_PANIC.with(|p| *p.borrow_mut() = None);
    match std::panic::catch_unwind(std::panic::AssertUnwindSafe(f)) {
        Ok(v) => Ok(v),
        Err(_) => Err(LAST_PANIC.with(|p| p.borrow_mut().take()).unwrap_or_else(|| "<panic>".to_string())),
    }
}

/// Panic site with the repository prefix removed, so keys do not depend on where /repo is mounted.
pub fn normalize_panic(msg: &str) -> String {
    msg.replace(&format!("{}/", repo().display()), "")
}

pub fn take_samples<T: Clone>(v: &[T], n: usize, seed: u64) -> Vec<T> {
    if v.len() <= n {
        return v.to_vec();
    }
    let step = v.len() / n;
    let off = (seed as usize) % step.max(1);
    (0..n).map(|i| v[(i * step + off).min(v.len() - 1)].clone()).collect()
}
