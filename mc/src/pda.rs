//! E2 pda: explicit-state exploration of the emitted parser's configurations over the input trie,
//! in lock-step with the reference canonical LR(1) driver and an Earley recogniser.
//! The model is an interpreter of the tables and reduce-function facts *extracted from the emitted text*.

use crate::common::*;
use crate::extract::Cell;
use crate::gramsweep::{bind, Acc, Bound, Case, Gen};
use crate::refgram::*;
use serde_json::{json, Value};

#[derive(Clone, Copy, Debug, PartialEq, Eq)]
pub enum NodeKind {
    T(u8),
    N(u8),
}

#[derive(Clone, Debug)]
pub struct Config {
    pub states: Vec<usize>,
    pub nodes: Vec<NodeKind>,
}

#[derive(Clone, Debug, PartialEq, Eq)]
pub enum Step {
    Shifted,
    Accepted,
    /// the error action (or a missing goto) was hit while this lookahead was current
    Error,
    /// the emitted code would panic here (stack underflow, failed `unwrap`, index out of range)
    WouldPanic(String),
    /// the same configuration came back without consuming input, or the step horizon was exceeded
    Loops(String),
}

/// Known-finding class: the emitted parser loops on a grammar that has a derivation cycle A =>+ A
/// (such a grammar is only accepted when useless nonterminals hide the conflict the cycle would cause).
pub const CLASS_CYCLE_LOOP: &str = "nontermination-on-derivation-cycle";

/// Token feeds per grammar after which the exploration stops descending (reported as capped in the evidence).
pub const FEED_BUDGET: u64 = 400_000;

pub const STEP_HORIZON: usize = 100_000;
/// correct tables keep the stacks shorter than the input plus the longest chain of unit reductions
pub const MAX_STACK: usize = 4_096;

pub struct Model<'a> {
    pub case: &'a Case,
    pub b: &'a Bound,
    pub start_nt: u8,
}

impl<'a> Model<'a> {
    pub fn initial(&self) -> Config {
        Config { states: vec![self.b.ex.start], nodes: vec![] }
    }

    /// Feeds one lookahead (terminal index, or t for end of input) to the configuration:
    /// runs the reductions it triggers, then shifts, accepts or reports an error.
    pub fn feed(&self, cfg: &mut Config, la: u8, steps: &mut usize) -> Step {
        let ex = &self.b.ex;
        let col = match self.b.col.iter().position(|c| *c == la) {
            Some(c) => c,
            None => return Step::WouldPanic(format!("no action column for lookahead {la}")),
        };
        let mut seen: Vec<Vec<usize>> = vec![];
        loop {
            *steps += 1;
            if *steps > STEP_HORIZON {
                return Step::Loops(format!("more than {STEP_HORIZON} steps"));
            }
            let Some(&top) = cfg.states.last() else { return Step::WouldPanic("state stack empty".into()) };
            let Some(row) = ex.action.get(top) else { return Step::WouldPanic(format!("state {top} out of range")) };
            match row[col] {
                Cell::Shift(s) => {
                    if la as usize == self.case.g.t {
                        return Step::WouldPanic("shift on end of input (try_into_terminal().unwrap() fails)".into());
                    }
                    cfg.states.push(s);
                    cfg.nodes.push(NodeKind::T(la));
                    return Step::Shifted;
                }
                Cell::Accept => {
                    return match cfg.nodes.last() {
                        Some(NodeKind::N(x)) if *x == self.start_nt => Step::Accepted,
                        other => Step::WouldPanic(format!("accept with {other:?} on top of the node stack")),
                    };
                }
                Cell::Err => return Step::Error,
                Cell::Reduce(k) => {
                    if seen.contains(&cfg.states) {
                        return Step::Loops("a configuration repeats without consuming input".into());
                    }
                    if seen.len() < 64 {
                        seen.push(cfg.states.clone());
                    }
                    if cfg.states.len() > MAX_STACK || cfg.nodes.len() > MAX_STACK {
                        return Step::Loops(format!("the stacks grow beyond {MAX_STACK} entries without consuming input"));
                    }
                    let Some(r) = ex.reduce.get(k) else { return Step::WouldPanic(format!("rule kind {k} out of range")) };
                    let prod = self.b.rule[k] as usize;
                    let rhs = &self.case.g.prods[prod].1;
                    if cfg.nodes.len() < r.pops {
                        return Step::WouldPanic(format!("{} pops {} nodes from a stack of {}", r.name, r.pops, cfg.nodes.len()));
                    }
                    let popped = cfg.nodes.split_off(cfg.nodes.len() - r.pops);
                    // the constructor expects exactly the production's symbols
                    let expect: Vec<NodeKind> = rhs.iter().map(|s| match s { Sym::N(b) => NodeKind::N(*b), Sym::T(b) => NodeKind::T(*b) }).collect();
                    if popped != expect {
                        return Step::WouldPanic(format!("{} pops {popped:?} but builds {:?} from {expect:?}", r.name, r.constructor));
                    }
                    if cfg.states.len() < r.truncate {
                        return Step::WouldPanic(format!("{} truncates {} states from a stack of {}", r.name, r.truncate, cfg.states.len()));
                    }
                    let keep = cfg.states.len() - r.truncate;
                    cfg.states.truncate(keep);
                    let Some(nt) = self.case.rendered.names.nonterminals.iter().position(|n| *n == r.node_variant) else {
                        return Step::WouldPanic(format!("{} wraps its result in an unknown node variant {}", r.name, r.node_variant));
                    };
                    cfg.nodes.push(NodeKind::N(nt as u8));
                    let Some(&top) = cfg.states.last() else { return Step::WouldPanic("state stack empty after a reduction".into()) };
                    let Some(gc) = ex.nonterminal_kinds.iter().position(|n| *n == r.kind) else { return Step::WouldPanic(format!("unknown nonterminal kind {}", r.kind)) };
                    match ex.goto[top][gc] {
                        Some(s) => cfg.states.push(s),
                        None => return Step::Error,
                    }
                }
            }
        }
    }
}

/// Runs the model on a whole word. Returns the final step and the index of the lookahead at which it
/// happened (`word.len()` = end of input).
pub fn simulate(model: &Model, word: &[u8]) -> (Step, usize) {
    let mut cfg = model.initial();
    let mut steps = 0;
    for (i, a) in word.iter().enumerate() {
        match model.feed(&mut cfg, *a, &mut steps) {
            Step::Shifted => {}
            other => return (other, i),
        }
    }
    (model.feed(&mut cfg, model.case.g.t as u8, &mut steps), word.len())
}

/// Reference canonical LR(1) driver, one lookahead at a time (same interface as the model).
#[derive(Clone)]
struct RefCfg {
    states: Vec<usize>,
}

fn ref_feed(g: &Grammar, tb: &Tables, cfg: &mut RefCfg, la: u8) -> Step {
    let mut steps = 0;
    loop {
        steps += 1;
        if steps > STEP_HORIZON {
            return Step::Loops("reference driver".into());
        }
        let cell = &tb.action[*cfg.states.last().unwrap()][la as usize];
        match cell.first() {
            None => return Step::Error,
            Some(Act::Shift(s)) => {
                cfg.states.push(*s);
                return Step::Shifted;
            }
            Some(Act::Accept) => return Step::Accepted,
            Some(Act::Reduce(p)) => {
                let (l, rhs) = &g.prods[*p as usize];
                let keep = cfg.states.len() - rhs.len();
                cfg.states.truncate(keep);
                match tb.goto[*cfg.states.last().unwrap()][*l as usize] {
                    Some(s) => cfg.states.push(s),
                    None => return Step::Error,
                }
            }
        }
    }
}

pub fn depth_for(t: usize, tier_deep: bool) -> usize {
    // for many terminals the trie is kept small by viability pruning and by the feed budget (FEED_BUDGET)
    let base = match t {
        0 => 1,
        1 => 10,
        2 => 8,
        3 => 6,
        4 | 5 => 5,
        _ => 6,
    };
    if tier_deep && t >= 1 {
        base + 1
    } else {
        base
    }
}

/// Expected driver fingerprint of the pinned template, with names replaced by roles (see extract.rs).
pub const DRIVER_FINGERPRINT: &str = "fn parse < SRC > ( src : SRC ) - > Result < START , Option < TERMINALS > > where SRC : IntoIterator < Item = TERMINALS > { let mut quasiterminals = src . into_iter ( ) . map ( QUASI : : Terminal ) . chain ( std : : iter : : once ( QUASI : : EOF ) ) . peekable ( ) ; let mut states = vec ! [ STATE : : STATEVARIANT ] ; let mut nodes : Vec < NODE > = vec ! [ ] ; loop { let top_state = * states . last ( ) . unwrap ( ) ; let next_quasiterminal_kind = QUASIKIND : : from_quasiterminal ( quasiterminals . peek ( ) . unwrap ( ) ) ; match get_action ( top_state , next_quasiterminal_kind ) { ACTION : : Shift ( new_state ) = > { states . push ( new_state ) ; nodes . push ( NODE : : from_terminal ( quasiterminals . next ( ) . unwrap ( ) . try_into_terminal ( ) . unwrap ( ) ) ) ; } ACTION : : Reduce ( rule_kind ) = > { let ( new_node , new_node_kind ) = pop_and_reduce ( & mut states , & mut nodes , rule_kind ) ; nodes . push ( new_node ) ; let temp_top_state = * states . last ( ) . unwrap ( ) ; let Some ( new_state ) = get_goto ( temp_top_state , new_node_kind ) else { return Err ( quasiterminals . next ( ) . unwrap ( ) . try_into_terminal ( ) . ok ( ) ) ; } ; states . push ( new_state ) ; } ACTION : : Accept = > { return Ok ( START : : try_from ( nodes . pop ( ) . unwrap ( ) ) . ok ( ) . unwrap ( ) ) ; } ACTION : : Err = > { return Err ( quasiterminals . next ( ) . unwrap ( ) . try_into_terminal ( ) . ok ( ) ) ; } } } } ";

struct Explorer<'a> {
    case: &'a Case,
    model: Model<'a>,
    rf: &'a Reference,
    all_productive: bool,
    depth: usize,
    property: &'a str,
    acc: &'a mut Acc,
    word: Vec<u8>,
    reported: bool,
    nodes_visited: u64,
    feeds: u64,
    capped: bool,
    /// false: no reference LR(1) driver (the grammar is not LR(1)); Earley stands in where it can
    use_ref: bool,
}

fn word_json(case: &Case, w: &[u8]) -> Value {
    json!(w.iter().map(|t| case.rendered.names.terminals[*t as usize].clone()).collect::<Vec<_>>())
}

impl<'a> Explorer<'a> {
    fn report(&mut self, for_property: &str, what: String, expected: Value, observed: Value) {
        if self.property != for_property || self.reported {
            if self.property != for_property {
                self.acc.inc(&format!("disagreements that belong to {for_property}"));
            }
            return;
        }
        self.reported = true; // one finding per grammar is enough
        let mut c = self.case.to_json();
        c["word"] = word_json(self.case, &self.word);
        c["word_indices"] = json!(self.word);
        let mut f = Finding::new("grammar_case", c, what, expected, observed);
        if f.what.contains("does not terminate") && has_derivation_cycle(&self.case.g) {
            f = f.with_class(CLASS_CYCLE_LOOP);
        }
        self.acc.finding(f);
    }

    /// Explores the subtree below the current prefix. `mcfg`: the model's configuration after the prefix
    /// (None once the model has rejected or failed); `rcfg`: the reference driver's (None once it rejected);
    /// `earley`: Some while the prefix is Earley-viable.
    /// Can the current word be extended to no sentence at all? (Earley over the reduced grammar)
    fn literally_dead(&self) -> bool {
        let rg = reduced(&self.case.g);
        let ra = Analysis::new(&rg);
        literal_error_index(&ra, &self.word).is_some()
    }

    fn dfs(&mut self, mcfg: Option<Config>, rcfg: Option<RefCfg>, earley: &mut Option<Earley<'_>>) {
        self.nodes_visited += 1;
        let t = self.case.g.t as u8;
        let at = self.word.len();
        // ---- end of input here
        let in_language = earley.as_ref().map(|e| e.accepts()).unwrap_or(false);
        let mut ref_end = rcfg.as_ref().map(|r| {
            let mut r = r.clone();
            ref_feed(&self.case.g, &self.rf.lr1_tables, &mut r, t)
        });
        if !self.use_ref && self.all_productive && earley.is_some() {
            // Earley as the reference: a viable prefix that is no sentence stops at end of input
            ref_end = Some(if in_language { Step::Accepted } else { Step::Error });
        }
        if !self.use_ref {
            // no LR(1) driver to cross-check
        } else if let Some(re) = &ref_end {
            // reference self-check: LR(1) driver vs Earley
            if (*re == Step::Accepted) != in_language {
                self.acc.self_check_errors.push(format!("reference self-check: LR(1) driver and Earley disagree on membership of {:?} in {:?}", self.word, self.case.g));
            }
        } else if in_language {
            self.acc.self_check_errors.push(format!("reference self-check: LR(1) driver rejected a prefix of the sentence {:?} in {:?}", self.word, self.case.g));
        }
        if let Some(m) = &mcfg {
            self.feeds += 1;
            let mut m2 = m.clone();
            let mut steps = 0;
            let me = self.model.feed(&mut m2, t, &mut steps);
            self.acc.max("max steps for one token", steps as u64);
            match &me {
                Step::WouldPanic(p) => self.report("C01", format!("the emitted parser would panic at end of input after {:?}: {p}", self.word), json!("no panic"), json!(p)),
                Step::Loops(p) => self.report("C01", format!("the emitted parser does not terminate at end of input after {:?}: {p}", self.word), json!("termination"), json!(p)),
                _ => {
                    if (me == Step::Accepted) != in_language {
                        self.report(
                            "C01",
                            format!("the emitted parser {} {:?}, which is {} the language", if me == Step::Accepted { "accepts" } else { "rejects" }, self.word, if in_language { "in" } else { "not in" }),
                            json!(if in_language { "Ok" } else { "Err" }),
                            json!(format!("{me:?}")),
                        );
                    } else if me == Step::Error {
                        // C03: Err(None) exactly when the reference stops at end of input
                        match &ref_end {
                            Some(Step::Error) => self.acc.inc("rejections at end of input agreeing with the LR(1) reference"),
                            _ => self.report("C03", format!("the emitted parser reports end of input for {:?} but the reference LR(1) parser stopped earlier", self.word), json!("error at an earlier token"), json!("Err(None)")),
                        }
                    } else {
                        self.acc.inc("accepted sentences");
                    }
                }
            }
        } else if in_language {
            // the model stopped on a prefix of a sentence: concrete witness for C01
            self.report("C01", format!("the emitted parser rejects the sentence {:?} (it reported an error inside it)", self.word), json!("Ok"), json!("Err"));
        }
        if at >= self.depth {
            return;
        }
        if self.feeds > FEED_BUDGET {
            self.capped = true;
            return;
        }
        // ---- one more token
        for a in 0..t {
            let mut m_next = None;
            let mut m_step = None;
            if let Some(m) = &mcfg {
                self.feeds += 1;
                let mut m2 = m.clone();
                let mut steps = 0;
                let st = self.model.feed(&mut m2, a, &mut steps);
                self.acc.max("max steps for one token", steps as u64);
                if st == Step::Shifted {
                    m_next = Some(m2);
                }
                m_step = Some(st);
            }
            let mut r_next = None;
            let mut r_step: Option<Step> = None;
            if let Some(r) = &rcfg {
                let mut r2 = r.clone();
                let st = ref_feed(&self.case.g, &self.rf.lr1_tables, &mut r2, a);
                if st == Step::Shifted {
                    r_next = Some(r2);
                }
                r_step = Some(st);
            }
            let viable = match earley.as_mut() {
                Some(e) => e.push(a),
                None => false,
            };
            if !self.use_ref && self.all_productive && (earley.is_some() || viable) {
                // Earley as the reference (all nonterminals productive: viable = extendable to a sentence)
                r_step = Some(if viable { Step::Shifted } else { Step::Error });
            }
            if self.use_ref && self.all_productive {
                if let Some(rs) = &r_step {
                    if (*rs == Step::Shifted) != viable {
                        self.acc.self_check_errors.push(format!("reference self-check: LR(1) driver and Earley disagree on viability of {:?}+{a} in {:?}", self.word, self.case.g));
                    }
                }
            }
            self.word.push(a);
            match (&m_step, &r_step) {
                (Some(Step::WouldPanic(p)), _) => self.report("C01", format!("the emitted parser would panic on {:?}: {p}", self.word), json!("no panic"), json!(p)),
                (Some(Step::Loops(p)), _) => self.report("C01", format!("the emitted parser does not terminate on {:?}: {p}", self.word), json!("termination"), json!(p)),
                (Some(Step::Accepted), _) => self.report("C01", format!("the emitted parser accepts before end of input on {:?}", self.word), json!("no accept before end of input"), json!("Accept")),
                (Some(Step::Error), Some(Step::Error)) => self.acc.inc("rejections at a token agreeing with the LR(1) reference"),
                // Where unproductive nonterminals exist the two readings of C03 part: a canonical LR parser (which C17
                // demands) stops where no *sentential form* continues the prefix, the statement says where no
                // *sentence* does, which can be earlier. Every index between the two is accepted.
                (Some(Step::Error), Some(Step::Shifted)) if !self.all_productive && self.use_ref && self.literally_dead() => self.acc.inc("rejections before the LR(1) reference stops, at a prefix that no sentence extends (unproductive nonterminals; allowed by the statement)"),
                (Some(Step::Error), Some(Step::Shifted)) => self.report("C03", format!("the emitted parser reports token {} of {:?} but the reference LR(1) parser accepts that prefix", at, self.word), json!("no error at this token"), json!(format!("Err(Some(token {at}))"))),
                (Some(Step::Shifted), Some(Step::Error)) => self.report("C03", format!("the reference LR(1) parser stops at token {} of {:?} but the emitted parser consumes it", at, self.word), json!(format!("Err(Some(token {at}))")), json!("token consumed")),
                _ => {}
            }
            let go_on = m_next.is_some() || (viable && !self.reported) || (r_next.is_some() && m_next.is_some());
            if go_on {
                let mut sub = if viable { earley.take() } else { None };
                self.dfs(m_next, r_next, &mut sub);
                if viable {
                    *earley = sub;
                }
            } else {
                self.acc.inc("branches cut where model and reference both reject");
            }
            self.word.pop();
            if viable {
                if let Some(e) = earley.as_mut() {
                    e.pop();
                }
            }
        }
    }
}

/// Model-layer check of one accepted grammar for `property` ("C01" or "C03").
pub fn model_case(case: &Case, gen: &Gen, rf: &Reference, property: &str, acc: &mut Acc, depth: usize) {
    let Gen::Ok(text) = gen else {
        acc.inc("skipped: not accepted by generate");
        return;
    };
    // A grammar that generate accepted although it is not LR(1) (C04 reports that) has no reference LR(1)
    // driver; membership (Earley) is still defined, and so is viability when all nonterminals are productive.
    let use_ref = !rf.lr1_tables.has_conflict();
    if !use_ref {
        acc.inc("accepted although not LR(1): judged by Earley alone");
        if property == "C03" && !rf.all_productive {
            acc.inc("skipped for C03: not LR(1) and with unproductive nonterminals (no reference index)");
            return;
        }
    }
    let b = match bind(case, text) {
        Ok(b) => b,
        Err(e) => {
            acc.inc("model unbound: emitted text not understood by the extractor");
            if acc.self_check_errors.len() < 3 {
                acc.self_check_errors.push(format!("extractor: {e}"));
            }
            return;
        }
    };
    if b.ex.driver_fingerprint != DRIVER_FINGERPRINT {
        acc.inc("model unbound: driver loop differs from the modelled template");
        if acc.self_check_errors.len() < 3 {
            acc.self_check_errors.push(format!("driver fingerprint: {}", b.ex.driver_fingerprint));
        }
        return;
    }
    acc.inc("grammars with a bound model");
    if property == "C03" && !rf.all_productive {
        acc.inc("grammars with unproductive nonterminals (index defined by the LR(1) reference)");
    }
    let a = Analysis::new(&case.g);
    let start_nt = 0u8;
    let model = Model { case, b: &b, start_nt };
    let init = model.initial();
    let mut ex = Explorer { case, model, rf, all_productive: rf.all_productive, depth, property, acc, word: vec![], reported: false, nodes_visited: 0, feeds: 0, capped: false, use_ref };
    let mut earley = Some(Earley::new(&a));
    ex.dfs(Some(init), if use_ref { Some(RefCfg { states: vec![rf.lr1_tables.start] }) } else { None }, &mut earley);
    let (n, f) = (ex.nodes_visited, ex.feeds);
    if ex.capped {
        acc.inc("grammars whose trie was cut by the feed budget (deeper words not explored)");
    }
    acc.add("configurations", n);
    acc.add("token feeds", f);
    acc.sample(|| json!({"source": case.rendered.source, "depth": depth, "configurations": n, "token_feeds": f}));
}

/// Model layer of C01 / C03 over the program scopes.
pub fn run_model_layer(ctx: &Ctx, property: &'static str, specs: &[crate::gramsweep::Spec], budget_s: f64) -> crate::gramsweep::SweepResult {
    let deep = ctx.tier == Tier::Thorough;
    crate::gramsweep::sweep(specs, budget_s, &move |case, _idx, acc| {
        let gen = crate::gramsweep::generate(&case.rendered.source);
        if !matches!(gen, Gen::Ok(_)) {
            acc.inc("skipped: not accepted by generate");
            return;
        }
        if let Some(rf) = crate::gramsweep::reference_or_note(case, acc) {
            acc.inc(&format!("class: {}", rf.class.name()));
            // (the scaled families say how deep their interesting sentences are)
            let depth = case.pres.names.get("depth").and_then(|d| d.parse().ok()).unwrap_or_else(|| depth_for(case.g.t, deep));
            model_case(case, &gen, &rf, property, acc, depth);
        }
    })
}
