//! E3 rustc-run: compiles emitted modules with rustc (batched) and runs the *real* `parse`
//! on every word of the input trie through a lazy, counting, side-effecting iterator under
//! `catch_unwind`. Also offers compile-only mode (C05) and client mode (C06).

use crate::common::*;
use rayon::prelude::*;
use std::collections::HashMap;
use std::path::{Path, PathBuf};
use std::process::{Command, Stdio};
use std::sync::atomic::{AtomicUsize, Ordering};

pub struct Scratch {
    pub dir: PathBuf,
}

static SCRATCH_COUNTER: AtomicUsize = AtomicUsize::new(0);

impl Scratch {
    pub fn new(tag: &str) -> Scratch {
        let n = SCRATCH_COUNTER.fetch_add(1, Ordering::Relaxed);
        let dir = std::env::temp_dir().join(format!("kiki-mc-{}-{}-{}", tag, std::process::id(), n));
        let _ = std::fs::remove_dir_all(&dir);
        std::fs::create_dir_all(&dir).unwrap_or_else(|e| machinery_error(format!("cannot create scratch dir {}: {e}", dir.display())));
        Scratch { dir }
    }
}

impl Drop for Scratch {
    fn drop(&mut self) {
        let _ = std::fs::remove_dir_all(&self.dir);
    }
}

/// Source prelude of every batch crate: the counting iterator, the trie walk, result rendering.
const PRELUDE: &str = r#"
#![allow(warnings)]
use std::cell::Cell;
use std::fmt::Debug;
use std::io::Write;
use std::panic::{catch_unwind, AssertUnwindSafe};

/// Lazy, side-effecting, non-fused input: counts every call to next(), records a poll after the end.
pub struct CountIter<'a, T> {
    pub w: &'a [u8],
    pub pos: usize,
    pub cnt: &'a Cell<usize>,
    pub ended: bool,
    pub after_end: &'a Cell<bool>,
    pub mk: &'a dyn Fn(u8, usize) -> T,
}
impl<'a, T> Iterator for CountIter<'a, T> {
    type Item = T;
    fn next(&mut self) -> Option<T> {
        self.cnt.set(self.cnt.get() + 1);
        if self.pos < self.w.len() {
            let r = (self.mk)(self.w[self.pos], self.pos);
            self.pos += 1;
            Some(r)
        } else {
            if self.ended {
                self.after_end.set(true);
            }
            self.ended = true;
            None
        }
    }
}

pub fn describe<S: Debug, T: Debug>(r: std::thread::Result<Result<S, Option<T>>>) -> String {
    match r {
        Ok(Ok(t)) => format!("OK {:?}", t),
        Ok(Err(Some(t))) => format!("ERR {:?}", t),
        Ok(Err(None)) => "EOF".to_string(),
        Err(_) => "PANIC".to_string(),
    }
}

pub static mut TRACE: bool = false;

// Per-run watchdog: a parse that does not return within WORD_LIMIT_MS is a hang (a parse of a few hundred tokens
// takes microseconds). The monitor prints `H|module|word|mode` and ends the process at once, so that the parent can
// re-run the batch without that module instead of waiting for its own time limit.
pub static CUR_START_MS: std::sync::atomic::AtomicU64 = std::sync::atomic::AtomicU64::new(0);
pub static CUR_ID: std::sync::atomic::AtomicUsize = std::sync::atomic::AtomicUsize::new(0);
pub static CUR_MODE: std::sync::atomic::AtomicUsize = std::sync::atomic::AtomicUsize::new(0);
pub static CUR_WORD: std::sync::Mutex<String> = std::sync::Mutex::new(String::new());
pub const WORD_LIMIT_MS: u64 = 20_000;
pub fn now_ms() -> u64 {
    static T0: std::sync::OnceLock<std::time::Instant> = std::sync::OnceLock::new();
    T0.get_or_init(std::time::Instant::now).elapsed().as_millis() as u64 + 1
}
pub fn start_watchdog() {
    now_ms();
    std::thread::spawn(|| loop {
        std::thread::sleep(std::time::Duration::from_millis(200));
        let s = CUR_START_MS.load(std::sync::atomic::Ordering::SeqCst);
        if s != 0 && now_ms().saturating_sub(s) > WORD_LIMIT_MS {
            let w = CUR_WORD.lock().map(|g| g.clone()).unwrap_or_default();
            let out = std::io::stdout();
            let mut o = out.lock();
            let _ = writeln!(o, "H|{}|{}|{}", CUR_ID.load(std::sync::atomic::Ordering::SeqCst), w, CUR_MODE.load(std::sync::atomic::Ordering::SeqCst));
            let _ = o.flush();
            std::process::exit(3);
        }
    });
}

/// Depth-first walk of the input trie. A word is extended only if the run on it polled the input
/// past its end (otherwise the outcome cannot depend on what follows).
pub fn explore(t: u8, l: usize, id: usize, run: &dyn Fn(&[u8], u8) -> (String, usize, bool)) {
    let budget = Cell::new(60_000usize); // words per module; deeper words are not run once it is used up
    fn rec(w: &mut Vec<u8>, t: u8, l: usize, id: usize, run: &dyn Fn(&[u8], u8) -> (String, usize, bool), budget: &Cell<usize>) {
        if budget.get() == 0 {
            println!("B|{}", id);
            return;
        }
        budget.set(budget.get() - 1);
        let ws: String = w.iter().map(|x| format!("{:02x}", x)).collect(); // two hex digits per token index
        let mut reached_end = false;
        let out = std::io::stdout();
        for mode in 0..3u8 {
            if unsafe { TRACE } {
                let mut o = out.lock();
                writeln!(o, "T|{}|{}|{}", id, ws, mode).unwrap();
                o.flush().unwrap();
            }
            if let Ok(mut g) = CUR_WORD.lock() {
                g.clear();
                g.push_str(&ws);
            }
            CUR_ID.store(id, std::sync::atomic::Ordering::SeqCst);
            CUR_MODE.store(mode as usize, std::sync::atomic::Ordering::SeqCst);
            CUR_START_MS.store(now_ms(), std::sync::atomic::Ordering::SeqCst);
            let (d, c, a) = run(w, mode);
            CUR_START_MS.store(0, std::sync::atomic::Ordering::SeqCst);
            if mode == 0 {
                reached_end = c > w.len();
            }
            let mut o = out.lock();
            writeln!(o, "R|{}|{}|{}|{}|{}|{}", id, ws, mode, c, if a { 1 } else { 0 }, d).unwrap();
        }
        if !reached_end || w.len() >= l {
            return;
        }
        for a in 0..t {
            w.push(a);
            rec(w, t, l, id, run, budget);
            w.pop();
        }
    }
    rec(&mut vec![], t, l, id, run, &budget);
}
"#;

/// Inverse of the word encoding of the compiled runner (two hex digits per token index).
fn decode_word(s: &str) -> Vec<u8> {
    s.as_bytes().chunks(2).map(|c| u8::from_str_radix(std::str::from_utf8(c).unwrap_or("0"), 16).unwrap_or(0)).collect()
}

pub struct RealModule {
    /// emitted text
    pub text: String,
    /// terminal enum name and the terminal variant names in index order
    pub terminal_enum: String,
    pub terminals: Vec<String>,
    pub depth: usize,
}

#[derive(Clone, Debug, PartialEq, Eq)]
pub struct Obs {
    pub desc: String,
    pub count: usize,
    pub polled_after_end: bool,
}

pub struct RealResults {
    /// per module: (word, mode) -> observation; mode 0 = counting iterator with position payloads,
    /// 1 = counting iterator with constant payloads, 2 = Vec with position payloads
    pub obs: Vec<HashMap<(Vec<u8>, u8), Obs>>,
    /// per module: rustc error text if the module does not compile
    pub compile_errors: Vec<Option<String>>,
    /// per module: the (word, mode) on which `parse` did not return within the time limit
    pub hangs: Vec<Option<(Vec<u8>, u8)>>,
    /// per module: the runner's word budget was used up (deeper words were not run)
    pub capped: Vec<bool>,
    pub compile_s: f64,
    pub run_s: f64,
    pub runs: u64,
}

fn rustc_cmd() -> Command {
    let mut c = Command::new("rustc");
    c.args(["--edition", "2021", "-C", "opt-level=0", "-C", "debuginfo=0", "-C", "debug-assertions=on", "-C", "overflow-checks=on", "-C", "codegen-units=4", "-A", "warnings", "--error-format=json"]);
    c
}

/// Extracts (file name, message) of every error diagnostic from rustc's JSON output.
pub fn rustc_errors(stderr: &str) -> Vec<(String, String)> {
    let mut out = vec![];
    for line in stderr.lines() {
        let Ok(v) = serde_json::from_str::<serde_json::Value>(line) else { continue };
        if v["level"].as_str() != Some("error") {
            continue;
        }
        let msg = v["message"].as_str().unwrap_or("").to_string();
        let code = v["code"]["code"].as_str().unwrap_or("");
        let mut file = String::new();
        if let Some(spans) = v["spans"].as_array() {
            for s in spans {
                if s["is_primary"].as_bool() == Some(true) {
                    file = s["file_name"].as_str().unwrap_or("").to_string();
                }
            }
            if file.is_empty() {
                if let Some(s) = spans.first() {
                    file = s["file_name"].as_str().unwrap_or("").to_string();
                }
            }
        }
        if msg.starts_with("aborting due to") {
            continue;
        }
        out.push((file, if code.is_empty() { msg } else { format!("{code}: {msg}") }));
    }
    out
}

fn module_index_of(file: &str) -> Option<usize> {
    let name = Path::new(file).file_name()?.to_str()?;
    let rest = name.strip_prefix('g')?.strip_suffix(".rs")?;
    rest.parse().ok()
}

fn batch_source(ids: &[usize], mods: &[RealModule], bad: &[bool]) -> String {
    let mut s = String::from(PRELUDE);
    for &i in ids {
        if bad[i] {
            continue;
        }
        let m = &mods[i];
        let arms: String = m.terminals.iter().enumerate().map(|(j, t)| format!("{j} => g{i}::{}::{}(p), ", m.terminal_enum, t)).collect();
        s += &format!(
            r#"
#[path = "g{i}.rs"] mod g{i};
fn run_{i}() {{
    let mk = |k: u8, p: usize| -> g{i}::{te} {{ match k {{ {arms}_ => unreachable!() }} }};
    let mk_const = |k: u8, _p: usize| -> g{i}::{te} {{ let p = 0usize; match k {{ {arms}_ => unreachable!() }} }};
    explore({t}, {l}, {i}, &|w: &[u8], mode: u8| {{
        let cnt = Cell::new(0usize);
        let after = Cell::new(false);
        let d = match mode {{
            0 => {{ let it = CountIter {{ w, pos: 0, cnt: &cnt, ended: false, after_end: &after, mk: &mk }}; describe(catch_unwind(AssertUnwindSafe(|| g{i}::parse(it)))) }}
            1 => {{ let it = CountIter {{ w, pos: 0, cnt: &cnt, ended: false, after_end: &after, mk: &mk_const }}; describe(catch_unwind(AssertUnwindSafe(|| g{i}::parse(it)))) }}
            _ => {{ let v: Vec<g{i}::{te}> = w.iter().enumerate().map(|(p, k)| mk(*k, p)).collect(); describe(catch_unwind(AssertUnwindSafe(|| g{i}::parse(v)))) }}
        }};
        (d, cnt.get(), after.get())
    }});
}}
"#,
            te = m.terminal_enum,
            t = m.terminals.len(),
            l = m.depth,
        );
    }
    s += "fn main() {\n    std::panic::set_hook(Box::new(|_| {}));\n    start_watchdog();\n    if std::env::args().any(|a| a == \"--trace\") { unsafe { TRACE = true; } }\n    let skip: Vec<usize> = std::env::args().skip_while(|a| a != \"--skip\").skip(1).filter_map(|s| s.parse().ok()).collect();\n";
    for &i in ids {
        if !bad[i] {
            s += &format!("    if !skip.contains(&{i}) {{ run_{i}(); }}\n");
        }
    }
    s += "}\n";
    s
}

/// Address-space limit for every compiled batch binary (a looping emitted parser must not eat the machine).
const CHILD_VMEM_KB: u64 = 3 * 1024 * 1024;
/// Cap on the output read from a batch binary.
const CHILD_STDOUT_CAP: usize = 1 << 30;

/// Runs a compiled batch binary under an address-space limit. Returns (stdout, failed), where failed means:
/// no clean exit within the time limit (time-out, abort, allocation failure, signal).
fn run_with_timeout(bin: &Path, args: &[&str], limit_s: u64) -> (String, bool) {
    let script = format!("ulimit -v {CHILD_VMEM_KB}; exec \"$0\" \"$@\"");
    let mut child = match Command::new("sh").arg("-c").arg(&script).arg(bin).args(args).stdout(Stdio::piped()).stderr(Stdio::null()).spawn() {
        Ok(c) => c,
        Err(e) => machinery_error(format!("cannot run {}: {e}", bin.display())),
    };
    let mut stdout = child.stdout.take().unwrap();
    let reader = std::thread::spawn(move || {
        use std::io::Read;
        let mut buf: Vec<u8> = vec![];
        let mut chunk = vec![0u8; 1 << 16];
        loop {
            match stdout.read(&mut chunk) {
                Ok(0) | Err(_) => break,
                Ok(n) => {
                    if buf.len() < CHILD_STDOUT_CAP {
                        buf.extend_from_slice(&chunk[..n]);
                    }
                }
            }
        }
        String::from_utf8_lossy(&buf).into_owned()
    });
    let t0 = std::time::Instant::now();
    let mut timed_out = false;
    loop {
        match child.try_wait() {
            Ok(Some(st)) => {
                if !st.success() {
                    timed_out = true; // abnormal end (abort on allocation failure, signal): treated like a hang
                }
                break;
            }
            Ok(None) => {
                if t0.elapsed().as_secs() > limit_s {
                    let _ = child.kill();
                    let _ = child.wait();
                    timed_out = true;
                    break;
                }
                std::thread::sleep(std::time::Duration::from_millis(20));
            }
            Err(_) => break,
        }
    }
    (reader.join().unwrap_or_default(), timed_out)
}

/// Compiles all modules (batched, errors attributed to modules, failing modules removed and the
/// batch rebuilt) and runs every compiled module over its input trie.
pub fn run_real(mods: &[RealModule], tag: &str) -> RealResults {
    let scratch = Scratch::new(tag);
    let n = mods.len();
    for (i, m) in mods.iter().enumerate() {
        std::fs::write(scratch.dir.join(format!("g{i}.rs")), &m.text).unwrap_or_else(|e| machinery_error(format!("scratch write: {e}")));
    }
    let per_batch = 220usize;
    let nb = ((n + per_batch - 1) / per_batch).max(1);
    // round-robin assignment keeps batches balanced
    let batches: Vec<Vec<usize>> = (0..nb).map(|b| (b..n).step_by(nb).collect()).collect();
    let t0 = std::time::Instant::now();
    let compiled: Vec<(Vec<(usize, String)>, bool)> = batches
        .par_iter()
        .enumerate()
        .map(|(b, ids)| {
            let mut bad_local: Vec<(usize, String)> = vec![];
            let mut bad = vec![false; n];
            for attempt in 0..6 {
                let src = batch_source(ids, mods, &bad);
                let main = scratch.dir.join(format!("main{b}.rs"));
                std::fs::write(&main, src).unwrap();
                let outp = rustc_cmd().arg("-o").arg(scratch.dir.join(format!("main{b}"))).arg(&main).current_dir(&scratch.dir).output();
                let outp = match outp {
                    Ok(o) => o,
                    Err(e) => machinery_error(format!("cannot start rustc: {e}")),
                };
                if outp.status.success() {
                    return (bad_local, true);
                }
                let errs = rustc_errors(&String::from_utf8_lossy(&outp.stderr));
                let mut progress = false;
                for (file, msg) in &errs {
                    if let Some(i) = module_index_of(file) {
                        if !bad[i] {
                            bad[i] = true;
                            bad_local.push((i, msg.clone()));
                            progress = true;
                        }
                    }
                }
                if !progress {
                    let _ = attempt;
                    machinery_error(format!("rustc failed on batch {b} with errors that cannot be attributed to an emitted module: {:?}", errs.iter().take(3).collect::<Vec<_>>()));
                }
            }
            (bad_local, false)
        })
        .collect();
    let compile_s = t0.elapsed().as_secs_f64();
    let mut compile_errors: Vec<Option<String>> = vec![None; n];
    for (b, (bad, ok)) in compiled.iter().enumerate() {
        if !*ok {
            machinery_error(format!("batch {b} still does not compile after removing failing modules"));
        }
        for (i, msg) in bad {
            compile_errors[*i] = Some(msg.clone());
        }
    }
    let t1 = std::time::Instant::now();
    let outputs: Vec<(String, Vec<(usize, Vec<u8>, u8)>)> = (0..nb)
        .into_par_iter()
        .map(|b| {
            let bin = scratch.dir.join(format!("main{b}"));
            let (out, failed) = run_with_timeout(&bin, &[], 300);
            if !failed {
                return (out, vec![]);
            }
            // A module made the batch hang, abort or exhaust its memory limit: find it with tracing (the last
            // T line names it), then run the batch again without it; repeat for further culprits.
            let mut culprits: Vec<(usize, Vec<u8>, u8)> = vec![];
            let mut last_out = String::new();
            let parse_marker = |l: &str| -> Option<(usize, Vec<u8>, u8)> {
                let p: Vec<&str> = l.split('|').collect();
                Some((p.get(1)?.parse::<usize>().ok()?, decode_word(p.get(2)?), p.get(3)?.parse::<u8>().ok()?))
            };
            // the first run may already name its culprit (watchdog line)
            if let Some(h) = out.lines().rev().find(|l| l.starts_with("H|")).and_then(|l| parse_marker(l)) {
                culprits.push(h);
            }
            let search_started = std::time::Instant::now();
            for _round in 0..400 {
                if search_started.elapsed().as_secs() > 1500 {
                    break; // the remaining modules of this batch stay unobserved
                }
                let mut args: Vec<String> = vec!["--trace".into(), "--skip".into()];
                args.extend(culprits.iter().map(|c| c.0.to_string()));
                let argrefs: Vec<&str> = args.iter().map(|s| s.as_str()).collect();
                let (trace, failed) = run_with_timeout(&bin, &argrefs, 300);
                if !failed {
                    last_out = trace;
                    break;
                }
                // a watchdog line names the hanging run; otherwise (abort, memory limit, time-out) the last trace line does
                let last = trace.lines().rev().find(|l| l.starts_with("H|")).or_else(|| trace.lines().rev().find(|l| l.starts_with("T|"))).map(|l| l.to_string());
                let hang = last.and_then(|l| {
                    let p: Vec<&str> = l.split('|').collect();
                    Some((p.get(1)?.parse::<usize>().ok()?, decode_word(p.get(2)?), p.get(3)?.parse::<u8>().ok()?))
                });
                match hang {
                    Some(h) if !culprits.iter().any(|c| c.0 == h.0) => culprits.push(h),
                    _ => break,
                }
                last_out = trace;
            }
            (last_out, culprits)
        })
        .collect();
    let run_s = t1.elapsed().as_secs_f64();
    let mut obs: Vec<HashMap<(Vec<u8>, u8), Obs>> = (0..n).map(|_| HashMap::new()).collect();
    let mut hangs: Vec<Option<(Vec<u8>, u8)>> = vec![None; n];
    let mut capped = vec![false; n];
    let mut runs = 0u64;
    for (out, culprits) in outputs {
        for (i, w, m) in culprits {
            if i < n {
                hangs[i] = Some((w, m));
            }
        }
        for line in out.lines() {
            if let Some(id) = line.strip_prefix("B|") {
                if let Ok(id) = id.parse::<usize>() {
                    if id < n {
                        capped[id] = true;
                    }
                }
                continue;
            }
            if !line.starts_with("R|") {
                continue;
            }
            let mut it = line.splitn(7, '|');
            it.next();
            let (Some(id), Some(w), Some(mode), Some(c), Some(a), Some(d)) = (it.next(), it.next(), it.next(), it.next(), it.next(), it.next()) else { continue };
            let (Ok(id), Ok(mode), Ok(c)) = (id.parse::<usize>(), mode.parse::<u8>(), c.parse::<usize>()) else { continue };
            if id >= n {
                continue;
            }
            runs += 1;
            obs[id].insert((decode_word(w), mode), Obs { desc: d.to_string(), count: c, polled_after_end: a == "1" });
        }
    }
    RealResults { obs, compile_errors, hangs, capped, compile_s, run_s, runs }
}

pub struct CompileUnit {
    /// files written to the scratch directory; names must end in `<index>.rs` (e.g. `g12.rs`, `c12.rs`)
    /// so that rustc errors can be attributed to the unit
    pub files: Vec<(String, String)>,
    /// text placed in the batch's root file (typically `#[path = "g12.rs"] pub mod g12;`)
    pub decl: String,
    /// statement placed in the batch's `main` (only used when the batch is run)
    pub main_call: String,
}

fn unit_index_of(file: &str) -> Option<usize> {
    let name = Path::new(file).file_name()?.to_str()?;
    let stem = name.strip_suffix(".rs")?;
    let digits: String = stem.chars().rev().take_while(|c| c.is_ascii_digit()).collect::<String>().chars().rev().collect();
    if digits.is_empty() || digits.len() == stem.len() {
        return None;
    }
    digits.parse().ok()
}

/// Compile-only mode (`--emit=metadata`: full type and borrow check). Units are batched; a failing
/// unit is removed and the batch re-run until every error is attributed. Returns per unit the first
/// error attributed to it.
pub fn check_compile(units: &[CompileUnit], crate_prelude: &str, per_batch: usize, tag: &str) -> (Vec<Option<String>>, f64) {
    let (errs, _, secs) = compile_units(units, crate_prelude, per_batch, tag, false);
    (errs, secs)
}

/// Like `check_compile`; with `run` the batches are fully compiled and executed and their stdout is returned.
pub fn compile_units(units: &[CompileUnit], crate_prelude: &str, per_batch: usize, tag: &str, run: bool) -> (Vec<Option<String>>, String, f64) {
    let scratch = Scratch::new(tag);
    let n = units.len();
    for u in units {
        for (name, content) in &u.files {
            std::fs::write(scratch.dir.join(name), content).unwrap_or_else(|e| machinery_error(format!("scratch write: {e}")));
        }
    }
    let nb = ((n + per_batch - 1) / per_batch).max(1);
    let batches: Vec<Vec<usize>> = (0..nb).map(|b| (b..n).step_by(nb).collect()).collect();
    let t0 = std::time::Instant::now();
    let results: Vec<(Vec<(usize, String)>, String)> = batches
        .par_iter()
        .enumerate()
        .map(|(b, ids)| {
            let mut bad = vec![false; n];
            let mut bad_local = vec![];
            loop {
                let mut src = String::from("#![allow(warnings)]\n");
                src += crate_prelude;
                for &i in ids {
                    if !bad[i] {
                        src += &units[i].decl;
                        src += "\n";
                    }
                }
                src += "fn main() {\n";
                if run {
                    for &i in ids {
                        if !bad[i] {
                            src += &units[i].main_call;
                            src += "\n";
                        }
                    }
                }
                src += "}\n";
                let main = scratch.dir.join(format!("batch_{b}_root.rs"));
                std::fs::write(&main, src).unwrap();
                let mut cmd = rustc_cmd();
                if run {
                    cmd.arg("-o").arg(scratch.dir.join(format!("batch_{b}_bin")));
                } else {
                    cmd.args(["--emit=metadata", "--crate-type", "bin", "-o"]).arg(scratch.dir.join(format!("batch_{b}.rmeta")));
                }
                let outp = cmd.arg(&main).current_dir(&scratch.dir).output().unwrap_or_else(|e| machinery_error(format!("cannot start rustc: {e}")));
                if outp.status.success() {
                    let mut stdout = String::new();
                    if run {
                        let (o, timed_out) = run_with_timeout(&scratch.dir.join(format!("batch_{b}_bin")), &[], 120);
                        if timed_out {
                            machinery_error(format!("client batch {b} did not finish within 120 s"));
                        }
                        stdout = o;
                    }
                    return (bad_local, stdout);
                }
                let errs = rustc_errors(&String::from_utf8_lossy(&outp.stderr));
                let mut progress = false;
                for (file, msg) in &errs {
                    if let Some(i) = unit_index_of(file) {
                        if i < n && !bad[i] {
                            bad[i] = true;
                            bad_local.push((i, msg.clone()));
                            progress = true;
                        }
                    }
                }
                if !progress {
                    machinery_error(format!("rustc failed on compile-only batch {b} with errors that cannot be attributed to a unit: {:?}", errs.iter().take(3).collect::<Vec<_>>()));
                }
            }
        })
        .collect();
    let mut out = vec![None; n];
    let mut stdout = String::new();
    for (r, o) in results {
        for (i, msg) in r {
            out[i] = Some(msg);
        }
        stdout += &o;
    }
    (out, stdout, t0.elapsed().as_secs_f64())
}
