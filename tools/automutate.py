#!/usr/bin/env python3
"""Mechanical single-point mutants of kiki's source, as a mutation-testing tool would make them.

  tools/automutate.py list                                  -> number of mutation sites per file
  tools/automutate.py run --repo R --shard i/n --budget-s S -> automutants/results_<i>.jsonl

For every mutant of the shard (deterministic order, interleaved over the files):
  1. the mutated file is written into the repository COPY R (never /repo);
  2. the repository's own suite runs there; a mutant that does not compile or that the suite kills is
     recorded as such and dropped (the task is about changes the suite does not see);
  3. for a survivor the quick checks that look at that part of the code run against R (evidence goes to
     scratch/), and the result records which of them report a VIOLATION.
Survivors that no check reports are the interesting ones: equivalent mutants, or blind spots.
"""
import json, os, re, subprocess, sys, time

HERE = os.path.dirname(os.path.dirname(os.path.abspath(__file__)))

# file (relative to kiki/src) -> checks that look at it
FILES = {
    "pipeline/tokenize.rs": ["C08", "C07", "C09", "C12", "C16"],
    "pipeline/cst_to_ast.rs": ["C09", "C10", "C07", "C06", "C13"],
    "pipeline/unexpected_token_or_eof_to_kiki_err.rs": ["C09", "C16"],
    "pipeline/validate_ast/mod.rs": ["C10", "C07", "C06"],
    "pipeline/validate_ast/nonterminals.rs": ["C10", "C07", "C12", "C06"],
    "pipeline/validate_ast/defined_identifiers.rs": ["C10", "C07"],
    "pipeline/validate_ast/start_symbol.rs": ["C10", "C07"],
    "pipeline/validate_ast/terminal_enum.rs": ["C10", "C07", "C13", "C12"],
    "pipeline/validate_ast/type_to_string.rs": ["C13", "C06"],
    "pipeline/validate_ast/capitalization.rs": ["C10"],
    "pipeline/validated_ast_to_machine/mod.rs": ["C04", "C17", "C11", "C01", "C07", "C14"],
    "pipeline/machine_to_table.rs": ["C04", "C17", "C11", "C01", "C03", "C14"],
    "pipeline/table_to_rust.rs": ["C05", "C06", "C17", "C01", "C02", "C03", "C12", "C13", "C15", "C14"],
    "data/oset.rs": ["C18", "C17"],
    "data/mod.rs": ["C10", "C13", "C17"],
    "data/validated_file.rs": ["C17", "C06", "C13"],
    "lib.rs": ["C15", "C07", "C09"],
    "pipeline/normalize_machine.rs": ["C17", "C04", "C11", "C14", "C01"],
    "pipeline/sort_and_get_index_updater.rs": ["C17", "C04", "C11", "C14", "C01"],
    "data/index_updater.rs": ["C17", "C11", "C04", "C01"],
    "data/table.rs": ["C17", "C04", "C01", "C03"],
    "data/machine.rs": ["C17", "C11", "C04"],
    "data/unnormalized_machine.rs": ["C17", "C11", "C04"],
    "data/token.rs": ["C09", "C08", "C16"],
}

OPS = [
    (r"==", "!="), (r"!=", "=="), (r"<=", "<"), (r">=", ">"), (r" < ", " <= "), (r" > ", " >= "),
    (r"&&", "||"), (r"\|\|", "&&"), (r"\+ 1\b", "+ 0"), (r"- 1\b", "- 0"), (r"\+ 1\b", "+ 2"),
    (r"\btrue\b", "false"), (r"\bfalse\b", "true"), (r"\.is_some\(\)", ".is_none()"), (r"\.is_none\(\)", ".is_some()"),
    (r"\.is_empty\(\)", ".is_empty() == false"), (r"\bcontinue;", "break;"), (r"\bbreak;", "continue;"),
    (r"\.skip\(1\)", ".skip(0)"), (r"\.rev\(\)", ""), (r"\bmin\(", "max("), (r"\bmax\(", "min("),
    (r"if !", "if "), (r"\.saturating_sub\(1\)", ".saturating_sub(0)"), (r"\.sort\(\);", ";"), (r"\.dedup\(\);", ";"),
    (r"\.sort_unstable\(\);", ";"), (r"\.any\(", ".all("), (r"\.all\(", ".any("), (r"\.first\(\)", ".last()"), (r"\.last\(\)", ".first()"),
    (r"\.len_utf8\(\)", ".len_utf8().min(1)"), (r"\bSome\((\w+)\) =>", r"Some(\1) if false =>"), (r"\.extend\(", ".clear(); //("),
    (r"\.iter\(\)", ".iter().skip(1)"), (r"\.iter\(\)", ".iter().rev()"), (r"Ordering::Less", "Ordering::Greater"), (r"Ordering::Greater", "Ordering::Less"),
    (r"\b0\b", "1"), (r"\b1\b", "0"), (r"\b1\b", "2"), (r"\b2\b", "3"),
    (r"^(\s*)[a-z_][\w\.]*\.(push|insert|extend|sort|dedup|retain|truncate|push_str|reverse)\(.*\);\s*$", r"\1;"),
    (r"return Err\(", "if false { return Err("),  # handled specially below (needs a closing brace): skipped unless line ends with `);`
]


def sites():
    out = []
    for rel in FILES:
        p = os.path.join("/repo/kiki/src", rel)
        if not os.path.exists(p):
            continue
        lines = open(p).read().split("\n")
        in_tests = False
        for ln, line in enumerate(lines):
            if "#[cfg(test)]" in line:
                in_tests = True
            if in_tests:
                continue
            t = line.strip()
            if not t or t.startswith("//") or t.startswith("#[") or t.startswith("use ") or "kiki_verif" in line:
                continue
            for oi, (pat, rep) in enumerate(OPS):
                for mi, m in enumerate(re.finditer(pat, line)):
                    if rep.startswith("if false { return Err("):
                        if not t.endswith(");") or not t.startswith("return Err("):
                            continue
                        new = line[:m.start()] + "if false { " + line[m.start():] + " }"
                    else:
                        new = line[:m.start()] + m.expand(rep) + line[m.end():]
                    if new != line:
                        out.append({"file": rel, "line": ln + 1, "op": oi, "occurrence": mi, "old": line.strip(), "new": new.strip(), "_new_line": new})
    # interleave over files so that every shard and every time budget sees all files
    by_file = {}
    for s in out:
        by_file.setdefault(s["file"], []).append(s)
    inter = []
    i = 0
    while any(by_file.values()):
        for f in list(by_file):
            if by_file[f]:
                # take from alternating ends / middle to spread over the file
                lst = by_file[f]
                inter.append(lst.pop((i * 7919) % len(lst)))
        i += 1
    return inter


def sh(cmd, cwd=None, env=None, timeout=None):
    """runs a shell command in its own process group; on a time-out the whole group is killed (a mutant can make
    the e2e build script - which calls generate - loop forever, and an orphan would keep cargo's lock)"""
    import signal
    p = subprocess.Popen(cmd, shell=True, text=True, stdout=subprocess.PIPE, stderr=subprocess.PIPE, cwd=cwd, env=env, start_new_session=True)
    class R: pass
    r = R()
    try:
        r.stdout, r.stderr = p.communicate(timeout=timeout)
        r.returncode = p.returncode
    except subprocess.TimeoutExpired:
        try:
            os.killpg(p.pid, signal.SIGKILL)
        except ProcessLookupError:
            pass
        r.stdout, r.stderr = p.communicate()
        r.stdout = (r.stdout or "") + "\nerror: timed out"
        r.returncode = 124
    return r


def run(repo, shard, nshards, budget_s, reverse=False):
    assert repo != "/repo" and os.path.isdir(repo)
    all_sites = sites()
    mine = [s for k, s in enumerate(all_sites) if k % nshards == shard]
    if reverse:
        mine.reverse()
    os.makedirs(os.path.join(HERE, "automutants"), exist_ok=True)
    outp = os.path.join(HERE, "automutants", f"results_{shard}{'r' if reverse else ''}.jsonl")
    env = dict(os.environ, CARGO_NET_OFFLINE="true", CARGO_TARGET_DIR=os.path.join(repo, "target"))
    cenv = dict(os.environ, VERIF_EVIDENCE_DIR=os.path.join(HERE, "scratch", "evidence-of-broken-trees"), VERIF_REPO=repo, VERIF_WATCHDOG_S="1500")
    ct = os.path.join(HERE, "mc", "Cargo.toml")
    t = open(ct).read().replace('path = "/repo/kiki"', f'path = "{repo}/kiki"')
    open(ct, "w").write(t)
    t0 = time.time()
    with open(outp, "a") as out:
        for s in mine:
            if time.time() - t0 > budget_s:
                break
            p = os.path.join(repo, "kiki/src", s["file"])
            orig = open(p).read()
            lines = orig.split("\n")
            if lines[s["line"] - 1] != open(os.path.join("/repo/kiki/src", s["file"])).read().split("\n")[s["line"] - 1]:
                continue
            lines[s["line"] - 1] = s["_new_line"]
            rec = {k: v for k, v in s.items() if not k.startswith("_")}
            try:
                open(p, "w").write("\n".join(lines))
                r = sh("cargo test --workspace --no-fail-fast --offline 2>&1 | grep -E '^test result|^error(\\[|:)|could not compile' | head -20", cwd=repo, env=env, timeout=900)
                passed = sum(int(x) for x in re.findall(r"(\d+) passed", r.stdout)); failed = sum(int(x) for x in re.findall(r"(\d+) failed", r.stdout))
                if "could not compile" in r.stdout or re.search(r"^error", r.stdout, re.M):
                    rec["suite"] = "does not compile"
                elif failed > 0 or passed < 118:
                    rec["suite"] = f"killed ({failed} failed, {passed} passed)"
                else:
                    rec["suite"] = "survives"
                    det = {}
                    for c in FILES[s["file"]]:
                        c0 = time.time()
                        rr = sh(f"{HERE}/check {c} quick", env=cenv, timeout=2400)
                        first = [l for l in rr.stdout.splitlines() if l.startswith(("  what", "MACHINERY"))]
                        det[c] = {"exit": rr.returncode, "first": (first[0] if first else "")[:300], "wall_s": round(time.time() - c0, 1)}
                        if rr.returncode == 1:
                            break  # one report is enough
                    rec["checks"] = det
                    rec["detected"] = any(v["exit"] == 1 for v in det.values())
                out.write(json.dumps(rec) + "\n"); out.flush()
                print(rec["file"], rec["line"], rec["suite"], rec.get("detected"), flush=True)
            finally:
                open(p, "w").write(orig)


if __name__ == "__main__":
    a = sys.argv
    if len(a) >= 2 and a[1] == "list":
        ss = sites()
        from collections import Counter
        print(len(ss), Counter(s["file"] for s in ss))
    elif len(a) >= 2 and a[1] == "run":
        repo = a[a.index("--repo") + 1]
        i, n = a[a.index("--shard") + 1].split("/")
        run(repo, int(i), int(n), float(a[a.index("--budget-s") + 1]), reverse="--reverse" in a)
    else:
        raise SystemExit(__doc__)
