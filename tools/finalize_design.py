#!/usr/bin/env python3
"""Rewrites the generated parts of DESIGN.md from what the machinery itself recorded:

  * section 8.2: the table of bounds and counts, from evidence/*.json (quick tier, written by the last runs in
    /verif against /repo) and, if given, from directories with thorough-tier evidence;
  * section 8.5a: the summary of the mechanical mutants, from automutants/results_*.jsonl.

  tools/finalize_design.py [thorough evidence dir ...]
"""
import collections, glob, json, os, re, subprocess, sys

HERE = os.path.dirname(os.path.dirname(os.path.abspath(__file__)))
BEGIN_82, END_82 = "<!-- generated 8.2 begin -->", "<!-- generated 8.2 end -->"
BEGIN_85, END_85 = "<!-- generated 8.5a begin -->", "<!-- generated 8.5a end -->"


def table(dirs):
    r = subprocess.run([sys.executable, os.path.join(HERE, "tools", "bounds_table.py")] + dirs, text=True, capture_output=True)
    return r.stdout.strip()


def automutants():
    recs = []
    for f in sorted(glob.glob(os.path.join(HERE, "automutants", "results_*.jsonl"))):
        recs += [json.loads(l) for l in open(f) if l.strip()]
    if not recs:
        return "(no run recorded)"
    c = collections.Counter()
    und = []
    by_check = collections.Counter()
    for d in recs:
        if d["suite"] != "survives":
            c["killed by the repository's suite (or not compiling)"] += 1
        elif d.get("detected"):
            c["survive the suite, reported by a check"] += 1
            for k, v in d["checks"].items():
                if v["exit"] == 1:
                    by_check[k] += 1
        else:
            c["survive the suite, reported by no check"] += 1
            und.append(d)
    sep = sum(1 for d in recs if d.get("verified_separately"))
    out = [f"{len(recs)} mutants were evaluated (of 391 sites; the rest fell to the time budget or to a hanging build script): " + "; ".join(f"{v} {k}" for k, v in c.items()) + ".",
           "First reporter of the detected survivors: " + ", ".join(f"{k} {v}" for k, v in sorted(by_check.items())) + f" ({sep} of them by a check that was not in the list run for that file and was run separately afterwards: two hangs of the rename loop, reported by C07, and a terminal name missing from the used-identifier set, reported by C05).", "",
           "Survivors that no check reports (each inspected by hand; see the classification below the table):", "",
           "| file:line | mutation | checks run (all exit 0) |", "|---|---|---|"]
    for d in und:
        esc = lambda t: t[:70].replace("|", "\\|")
        out.append(f"| {d['file']}:{d['line']} | `{esc(d['old'])}` -> `{esc(d['new'])}` | {' '.join(d['checks'])} |")
    return "\n".join(out)


def replace(s, begin, end, body):
    i, j = s.index(begin), s.index(end)
    return s[: i + len(begin)] + "\n" + body + "\n" + s[j:]


def main():
    p = os.path.join(HERE, "DESIGN.md")
    s = open(p).read()
    quick = table([os.path.join(HERE, "evidence")])
    body = "Quick tier (the evidence files committed with this text):\n\n" + quick
    th = [d for d in sys.argv[1:] if os.path.isdir(d)]
    if th:
        rows = [l for l in table(th).split("\n") if l.startswith("| id") or l.startswith("|---") or "| thorough |" in l]
        rows = rows[:2] + sorted(set(rows[2:]))
        body += "\n\nThorough tier (last complete runs, made on snapshots with `vp run --with-repo`, under load from other runs):\n\n" + "\n".join(rows)
    s = replace(s, BEGIN_82, END_82, body)
    s = replace(s, BEGIN_85, END_85, automutants())
    open(p, "w").write(s)
    print("DESIGN.md updated")


if __name__ == "__main__":
    main()
