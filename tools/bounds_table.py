#!/usr/bin/env python3
"""Prints the table of DESIGN.md 8.2 from the evidence files the checks wrote themselves.

  tools/bounds_table.py [evidence dir ...]      (default: /verif/evidence)

One row per evidence file: tier, wall time, the counts every engine reports (evaluations or
states/transitions, traces validated against the implementation), the completed scopes and any scope
that hit a cap.
"""
import json, os, sys

HERE = os.path.dirname(os.path.dirname(os.path.abspath(__file__)))


def num(x):
    if x is None:
        return "-"
    if isinstance(x, (int, float)) and x >= 100000:
        return f"{x:.2e}".replace("e+0", "e").replace("e+", "e")
    return str(x)


def row(d):
    c = d.get("coverage", {})
    scopes = c.get("scopes", [])
    if isinstance(scopes, dict):
        scopes = [dict(name=f"{k}={v}") for k, v in scopes.items() if not isinstance(v, (list, dict))]
    scopes = [x for x in scopes if isinstance(x, dict)]
    done = [s for s in scopes if s.get("completed", True)]
    capped = [s for s in scopes if not s.get("completed", True)]
    names = ", ".join(str(s.get("name")) for s in done[:6]) + (f", … ({len(done)} scopes)" if len(done) > 6 else "")
    counts = []
    for k in ("evaluations", "states", "transitions", "traces_validated_against_impl", "real_modules_compiled_and_run", "schedules"):
        if c.get(k) is not None:
            counts.append(f"{k.replace('_', ' ')} {num(c[k])}")
    cap = "; capped: " + ", ".join(f"{s.get('name')} ({s.get('capped_by')})" for s in capped) if capped else ""
    return f"| {d.get('property_id')} | {d.get('tier')} | {d.get('wall_s'):.0f} s | {'; '.join(counts)} | {names}{cap} |"


def main():
    dirs = sys.argv[1:] or [os.path.join(HERE, "evidence")]
    print("| id | tier | wall | counts reported by the engine | scopes completed |")
    print("|---|---|---|---|---|")
    for d in dirs:
        for f in sorted(os.listdir(d)):
            if f.endswith(".json"):
                print(row(json.load(open(os.path.join(d, f)))))


if __name__ == "__main__":
    main()
