#!/usr/bin/env python3
"""Deliberate property-breaking changes ("mutants") used to demonstrate that the checks detect breakage.

  tools/mutants.py make                      regenerate /verif/mutants/*.patch from the edit table (against /repo HEAD)
  tools/mutants.py run [--repo R] [--only M] [--checks C01,C04|all] [--skip-suite]
        for each patch: apply it to the repo copy R (default /repo), run the repository's own suite
        (must still pass, otherwise the mutant is not a valid one), run the listed quick checks
        (default: the ones the mutant is expected to trip), record VIOLATION / silent, revert.
        Results are written to /verif/mutants/results.json (merged).

With --repo other than /repo the harness crate's path dependency is redirected to that copy
(the registered checks themselves always use /repo).
"""
import json, os, re, subprocess, sys, time

HERE = os.path.dirname(os.path.dirname(os.path.abspath(__file__)))
MUTDIR = os.path.join(HERE, "mutants")

# name -> (expected checks, [(file, old, new)], description)
M = {}
def mut(name, expect, edits, desc):
    M[name] = (expect, edits, desc)

MACHINE = "kiki/src/pipeline/validated_ast_to_machine/mod.rs"
FIRST = "kiki/src/pipeline/validated_ast_to_machine/first_set_map.rs"
TABLE = "kiki/src/pipeline/machine_to_table.rs"
EMIT = "kiki/src/pipeline/table_to_rust.rs"
TOK = "kiki/src/pipeline/tokenize.rs"
NONT = "kiki/src/pipeline/validate_ast/nonterminals.rs"

mut("M01-lookahead-ignores-nullable", ["C17", "C04", "C01"],
    [(MACHINE, "                    if !nonterminal_first_set.contains_epsilon {\n                        contains_epsilon = false;\n                        break;\n                    }",
      "                    contains_epsilon = false;\n                    break;")],
    "lookahead computation treats every nonterminal after the dot as non-nullable")
mut("M03-conflict-compares-kinds", ["C04"],
    [(TABLE, "            if *existing_action == action {", "            if std::mem::discriminant(existing_action) == std::mem::discriminant(&action) {")],
    "two actions of the same kind count as equal: reduce/reduce conflicts go unnoticed")
mut("M06-tid-span-off-by-one", ["C09"],
    [("kiki/src/pipeline/unexpected_token_or_eof_to_kiki_err.rs", 'Token::TerminalIdent(ident) => ByteIndex(ident.dollarless_position.0 - "$".len()),', "Token::TerminalIdent(ident) => ident.dollarless_position,")],
    "start of a `$`-token in a Parse error is off by one")
mut("M07-comment-ends-at-cr", ["C08", "C16"],
    [(TOK, "        if current == '\\n' {\n            self.state = State::Main;\n        }\n\n        Ok(())", "        if current == '\\n' || current == '\\r' {\n            self.state = State::Main;\n        }\n\n        Ok(())")],
    "a // comment also ends at a bare CR")
mut("M09-oset-fromiter-no-dedup", ["C18"],
    [("kiki/src/data/oset.rs", "        raw.sort();\n        raw.dedup();\n        Self { raw }", "        raw.sort();\n        Self { raw }")],
    "Oset::from_iter without dedup")
mut("M10-hash-ignores-leading-block", ["C15"],
    [("kiki/src/lib.rs", '        if !line.starts_with("//") {\n            return None;\n        }\n', "")],
    "get_grammar_hash keeps scanning after the leading // block")
mut("M11-attributes-sorted", ["C12"],
    [(EMIT, '    attributes.iter().map(|a| format!("{}\\n", &a.src)).collect()', '    let mut v: Vec<&Attribute> = attributes.iter().collect();\n    v.sort_by(|a, b| a.src.cmp(&b.src));\n    v.iter().map(|a| format!("{}\\n", &a.src)).collect()')],
    "attributes of a declaration are emitted in sorted order")
mut("M12-nested-generic-callee-last-segment", ["C13"],
    [("kiki/src/pipeline/validate_ast/type_to_string.rs", "    let callee = path_to_string(&complex.callee);", "    let callee = if complex.args.iter().any(|a| matches!(a, Type::Complex(_))) { path_to_string(&complex.callee[complex.callee.len() - 1..]) } else { path_to_string(&complex.callee) };")],
    "callee path of a generic whose argument is generic is reduced to its last segment")
mut("M13-seq-clash-ignores-underscore-named", ["C10"],
    [(NONT, "        Fieldset::Named(named) => named\n            .fields\n            .iter()\n            .map(|field| field.symbol.clone().into())\n            .collect::<Vec<_>>(),", "        Fieldset::Named(named) => named\n            .fields\n            .iter()\n            .filter(|field| field.is_used())\n            .map(|field| field.symbol.clone().into())\n            .collect::<Vec<_>>(),")],
    "variant symbol-sequence clash ignores `_` fields of named fieldsets")
mut("M16-conflict-state-index-zero", ["C11"],
    [(TABLE, "            return Err(KikiErr::TableConflict(Box::new(TableConflictErr {\n                state_index,", "            return Err(KikiErr::TableConflict(Box::new(TableConflictErr {\n                state_index: StateIndex(0),")],
    "TableConflictErr.state_index is always 0")
mut("M17-first-set-stops-after-second-symbol", ["C17", "C04"],
    [(FIRST, "    for field in &tuple.fields {\n        let first = get_current_first_set_for_symbol(field.symbol(), map);\n        out.terminals.extend(first.terminals);\n\n        if !first.contains_epsilon {", "    for (i, field) in tuple.fields.iter().enumerate() {\n        let first = get_current_first_set_for_symbol(field.symbol(), map);\n        out.terminals.extend(first.terminals);\n\n        if !first.contains_epsilon || i >= 1 {")],
    "FIRST of a tuple fieldset stops after the second symbol (needs right-hand sides of length 3)")
mut("M18-capitalisation-skips-tuple-struct-name", ["C10"],
    [(NONT, "    validate_ident_uppercase_start(&struct_def.name)?;\n", "    if !matches!(struct_def.fieldset, Fieldset::Tuple(_)) { validate_ident_uppercase_start(&struct_def.name)?; }\n")],
    "capitalisation of tuple-struct names is not checked")
mut("M19-tuple-struct-constructor-swaps-two-fields", ["C02", "C06", "C05"],
    [(EMIT, "        let constructor_name = constructor_name.to_string();\n        let child_vars: String = fields\n            .iter()\n            .enumerate()\n            .rev()\n            .map(|(field_index, field)| match field {\n                TupleField::Skipped",
            "        let constructor_is_struct = matches!(constructor_name, ConstructorName::Struct(_));\n        let constructor_name = constructor_name.to_string();\n        let child_vars: String = fields\n            .iter()\n            .enumerate()\n            .rev()\n            .map(|(field_index, field)| match field {\n                TupleField::Skipped"),
     (EMIT, '                TupleField::Used(_) => Some(format!("{ANONYMOUS_FIELD_PREFIX}{field_index},")),', '                TupleField::Used(_) => Some(format!("{ANONYMOUS_FIELD_PREFIX}{},", if constructor_is_struct && fields.len() == 2 && fields.iter().all(TupleField::is_used) { 1 - field_index } else { field_index })),')],
    "constructor of a two-field tuple struct gets its arguments swapped")
mut("M20-conflict-scan-through-hash-set", ["C14"],
    [(TABLE, "        for i in 0..self.machine.states.len() {\n            self.add_state_actions_to_table(builder, StateIndex(i))?;\n        }",
             "        let order: HashMap<usize, ()> = (0..self.machine.states.len()).map(|i| (i, ())).collect();\n        for (i, _) in order {\n            self.add_state_actions_to_table(builder, StateIndex(i))?;\n        }")],
    "the conflict scan walks the states through a hash map: which conflict is reported depends on the hash seed")
mut("M21-reduce-truncates-one-state-too-few", ["C01", "C03", "C02"],
    [(EMIT, "        let num_fields = fields.len();\n\n        let parent_fields_indent_2 = fields\n            .iter()\n            .enumerate()\n            .filter_map(|(field_index, field)| match field {\n                TupleField::Skipped(_) => None,",
            "        let num_fields = if fields.len() == 3 && fields.iter().all(|f| !f.is_used()) { 2 } else { fields.len() };\n\n        let parent_fields_indent_2 = fields\n            .iter()\n            .enumerate()\n            .filter_map(|(field_index, field)| match field {\n                TupleField::Skipped(_) => None,")],
    "the reduce function of a tuple fieldset with exactly three `_` fields truncates one state too few (shape absent from the snapshots)")
mut("M22-double-colon-after-attribute-is-two-colons", ["C08"],
    [(TOK, "        if current == ':' {\n            self.out.push(Token::DoubleColon(start));\n            self.state = State::Main;\n            Ok(())",
           "        if current == ':' && !matches!(self.out.last(), Some(Token::RAngle(_))) {\n            self.out.push(Token::DoubleColon(start));\n            self.state = State::Main;\n            Ok(())")],
    "`::` directly after `>` is lexed as two single colons")
mut("M23-error-arm-consumes-second-token", ["C03"],
    [(EMIT, "            {action_enum_name}::{ACTION_ERR_VARIANT_NAME} => {{\n                return Err(quasiterminals.next().unwrap().try_into_terminal().ok());",
            "            {action_enum_name}::{ACTION_ERR_VARIANT_NAME} => {{\n                quasiterminals.next();\n                return Err(quasiterminals.next().and_then(|q| q.try_into_terminal().ok()));")],
    "NEGATIVE CONTROL: the Err arm consumes a second token (changes every snapshot, so the repository's suite catches it too)")
mut("M24-goto-error-reports-next-token", ["C03"],
    [(EMIT, "                let Some(new_state) = get_goto(temp_top_state, new_node_kind) else {{\n                    return Err(quasiterminals.next().unwrap().try_into_terminal().ok());",
            "                let Some(new_state) = get_goto(temp_top_state, new_node_kind) else {{\n                    quasiterminals.next();\n                    return Err(quasiterminals.next().and_then(|q| q.try_into_terminal().ok()));")],
    "NEGATIVE CONTROL (snapshot text changes): a missing goto reports the token after the offending one")
mut("M25-oset-insert-after-equal-range", ["C18"],
    [("kiki/src/data/oset.rs", "            Ok(_) => {}\n            Err(i) => self.raw.insert(i, item),", "            Ok(_) => {}\n            Err(i) => self.raw.insert(if i + 1 == self.raw.len() && i > 2 { i + 1 } else { i }, item),")],
    "Oset::insert puts an element one slot too far when it belongs just before the last of at least four elements")
mut("M26-start-defined-checked-against-all-names", ["C10"],
    [("kiki/src/pipeline/validate_ast/start_symbol.rs", "    if !is_defined {", "    if !is_defined && start_symbol.name.len() > 1 {")],
    "an undefined start symbol with a one-letter name is accepted (generate then fails later or panics)")
mut("M27-unique-identifier-skips-goto-table", ["C05"],
    [(EMIT, '        let goto_table_name = create_unique_identifier("GOTO_TABLE", used_identifiers);', '        let goto_table_name = "GOTO_TABLE".to_string();')],
    "the goto table name is not uniquified (a user type called GOTO_TABLE clashes)")
mut("M28-hash-of-trimmed-source", ["C15"],
    [(EMIT, "        let grammar_sha256 = sha256::digest(self.grammar_src);", "        let grammar_sha256 = sha256::digest(self.grammar_src.trim_end());")],
    "the embedded digest is computed from the source with trailing whitespace removed (freshness test breaks for files that differ in trailing newlines)")
mut("M29-eof-error-position-off", ["C09", "C16"],
    [("kiki/src/pipeline/unexpected_token_or_eof_to_kiki_err.rs", 'KikiErr::Parse(ByteIndex(src.len()), "".to_string(), ByteIndex(src.len()))', 'KikiErr::Parse(ByteIndex(src.trim_end().len()), "".to_string(), ByteIndex(src.trim_end().len()))')],
    "an unexpected end of input is reported at the end of the last token instead of the end of the source")
mut("M30-goto-table-row-of-merged-state", ["C17", "C01"],
    [(MACHINE, "        if were_items_added {\n            self.queue.push_back(index);\n        }", "        if were_items_added && index.0 % 7 != 6 {\n            self.queue.push_back(index);\n        }")],
    "a merged state that gained lookaheads is not re-processed when its index is 6 mod 7 (lookaheads do not propagate further)")


def sh(cmd, **kw):
    return subprocess.run(cmd, shell=True, text=True, capture_output=True, **kw)


def apply_edits(repo, edits):
    for path, old, new in edits:
        p = os.path.join(repo, path)
        s = open(p).read()
        if s.count(old) < 1:
            raise SystemExit(f"edit does not apply: {path}: {old[:60]!r}")
        s = s.replace(old, new, 1)
        open(p, "w").write(s)


def make():
    os.makedirs(MUTDIR, exist_ok=True)
    assert sh("git -C /repo status --porcelain").stdout.strip() == "", "/repo has uncommitted changes"
    for name, (expect, edits, desc) in M.items():
        apply_edits("/repo", edits)
        d = sh("git -C /repo diff").stdout
        sh("git -C /repo checkout -- .")
        open(os.path.join(MUTDIR, name + ".patch"), "w").write(d)
        print("wrote", name, len(d.splitlines()), "lines")
    json.dump({n: {"expected_checks": e, "description": d} for n, (e, _, d) in M.items()}, open(os.path.join(MUTDIR, "index.json"), "w"), indent=1)


def run(argv):
    repo = "/repo"
    only = None
    checks_arg = None
    skip_suite = False
    i = 0
    while i < len(argv):
        if argv[i] == "--repo": repo = argv[i + 1]; i += 2
        elif argv[i] == "--only": only = argv[i + 1].split(","); i += 2
        elif argv[i] == "--checks": checks_arg = argv[i + 1]; i += 2
        elif argv[i] == "--skip-suite": skip_suite = True; i += 1
        else: raise SystemExit("unknown argument " + argv[i])
    verif = HERE
    env = dict(os.environ, VERIF_EVIDENCE_DIR=os.path.join(os.path.dirname(os.path.dirname(os.path.abspath(__file__))), "scratch", "evidence-of-broken-trees"))
    if repo != "/repo":
        # redirect the harness crate's path dependency and the runtime file reads to the copy
        ct = os.path.join(verif, "mc", "Cargo.toml")
        s = open(ct).read().replace('path = "/repo/kiki"', f'path = "{repo}/kiki"')
        open(ct, "w").write(s)
        env["VERIF_REPO"] = repo
    all_ids = [f"C{n:02d}" for n in range(1, 19)]
    results_path = os.path.join(MUTDIR, "results.json")
    results = json.load(open(results_path)) if os.path.exists(results_path) else {}
    assert sh(f"git -C {repo} status --porcelain").stdout.strip() == "", f"{repo} has uncommitted changes"
    for name in sorted(M):
        if only and not any(name.startswith(o) for o in only):
            continue
        expect, edits, desc = M[name]
        patch = os.path.join(MUTDIR, name + ".patch")
        r = sh(f"git -C {repo} apply {patch}")
        if r.returncode != 0:
            print(name, "PATCH DOES NOT APPLY", r.stderr[:200]); continue
        entry = results.get(name, {})
        entry["description"] = desc
        entry["expected_checks"] = expect
        try:
            if not skip_suite:
                t = sh(f"cd {repo} && CARGO_NET_OFFLINE=true cargo test --workspace --no-fail-fast --offline 2>&1 | grep -E '^test result|^error|FAILED|failed' | head -20")
                passed = sum(int(x) for x in re.findall(r"(\d+) passed", t.stdout))
                failed = sum(int(x) for x in re.findall(r"(\d+) failed", t.stdout))
                entry["suite"] = {"passed": passed, "failed": failed, "ok": failed == 0 and passed >= 118 and "error" not in t.stdout}
                print(name, "suite", entry["suite"], flush=True)
            ids = all_ids if checks_arg == "all" else (checks_arg.split(",") if checks_arg else expect)
            det = entry.get("checks", {})
            for cid in ids:
                t0 = time.time()
                c = subprocess.run([os.path.join(verif, "check"), cid, "quick"], text=True, capture_output=True, env=env)
                lines = [l for l in c.stdout.splitlines() if l.startswith("VIOLATION") or l.startswith("MACHINERY") or l.startswith("  what")]
                det[cid] = {"exit": c.returncode, "violation": c.returncode == 1 and any(l.startswith("VIOLATION") for l in lines), "first": (lines[1][:300] if len(lines) > 1 else (lines[0][:300] if lines else "")), "wall_s": round(time.time() - t0, 1)}
                print(" ", name, cid, "exit", c.returncode, det[cid]["first"][:140], flush=True)
            entry["checks"] = det
        finally:
            sh(f"git -C {repo} checkout -- .")
        results[name] = entry
        json.dump(results, open(results_path, "w"), indent=1, sort_keys=True)
    if repo != "/repo":
        sh(f"git -C {verif} checkout -- mc/Cargo.toml")


if __name__ == "__main__":
    if len(sys.argv) < 2: raise SystemExit(__doc__)
    if sys.argv[1] == "make": make()
    elif sys.argv[1] == "run": run(sys.argv[2:])
    else: raise SystemExit(__doc__)
