#!/usr/bin/env python3
"""Regenerates /verif/MANIFEST.json from the table below and validates it against the schema."""
import json, os, sys
HERE = os.path.dirname(os.path.dirname(os.path.abspath(__file__)))

# id -> (engine, category, technique, level text, level note, design ref)
CHECKS = {
 "C18": ("E6 osetmc", "model_checking",
         "explicit-state model checking (stateright BFS to fixpoint) of the real Oset against a BTreeSet reference",
         "Every history of insert/extend/from_iter/new/default/clone over a 4- (quick) or 8-element (thorough) domain, with all argument sequences up to length 3 / 5 (duplicates, unsorted), is covered because the search closes: the real kiki::Oset object is the model-checker state. Per-state oracle: iteration by value / by reference / through Deref, strict order, contains; per-pair oracle over all reached objects: ==, cmp, partial_cmp, Hash are functions of the element sets and cmp is a total order.",
         "std BTreeSet is the reference; four element types stand for any Ord type; stateright 0.31 explores the state graph.",
         "DESIGN.md section 3, C18"),
}
PENDING = {}  # id -> reason (only while a check is under construction)

props = [json.loads(l) for l in open(os.path.join(HERE, "properties.jsonl"))]
checks = []
for p in props:
    i = p["id"]
    if i not in CHECKS: continue
    eng, cat, tech, text, note, ref = CHECKS[i]
    checks.append({
        "property_id": i,
        "quick_cmd": f"./check {i} quick",
        "thorough_cmd": f"./check {i} thorough",
        "evidence_file": f"/verif/evidence/{i}.json",
        "replay_cmd_template": "./check replay {path}",
        "engine": eng,
        "level_claimed": {"category": cat, "text": text, "design_ref": ref},
        "level_note": note,
        "technique": tech,
    })
na = [{"property_id": p["id"], "reason": PENDING.get(p["id"], "check not built yet (construction in progress; see DESIGN.md appendix G)")} for p in props if p["id"] not in CHECKS]
hooks_commits = os.popen("git -C /repo log --format=%H --grep='^verif hook'").read().split()
manifest = {
 "version": 1,
 "setup_cmd": "./setup.sh",
 "hooks": {
   "guard": "kiki_verif",
   "enable": "RUSTFLAGS=\"--cfg kiki_verif\" (set in /verif/mc/.cargo/config.toml; the harness crate depends on /repo/kiki by path, so every check rebuilds kiki from the working tree with the guard on)",
   "baseline_off_cmd": "cd /repo && cargo test --workspace --no-fail-fast --offline",
   "source_commits": hooks_commits,
   "add_only": True,
 },
 "engines": [],
 "checks": checks,
 "not_applicable": na,
 "notes": "All checks are bounded-exhaustive explorations (model checking family); see DESIGN.md. Exit 0 = held (known findings only), 1 = VIOLATION, 2 = MACHINERY-ERROR (never a verdict).",
}
engines = {}
for c in checks:
    engines.setdefault(c["engine"], []).append(c["property_id"])
manifest["engines"] = [{"name": k, "path": "/verif/mc", "serves_properties": v, "kind_free_text": "bounded-exhaustive explorer in the kiki-mc binary"} for k, v in engines.items()]
if not na: del manifest["not_applicable"]
out = os.path.join(HERE, "MANIFEST.json")
json.dump(manifest, open(out, "w"), indent=1)
open(out, "a").write("\n")
try:
    import jsonschema
    jsonschema.validate(manifest, json.load(open("/root/.vp/MANIFEST.schema.json")))
    print("MANIFEST.json valid;", len(checks), "checks,", len(na), "not claimed")
except ImportError:
    print("jsonschema not available in this python; wrote MANIFEST.json unvalidated")
