#!/usr/bin/env python3
"""Regenerates /verif/MANIFEST.json from the table below and validates it against the schema."""
import json, os, sys
HERE = os.path.dirname(os.path.dirname(os.path.abspath(__file__)))

# id -> (engine, category, technique, level text, level note, design ref)
SCOPE_NOTE = "quick: all 818 976 grammars of G(2,2,3,3) (2 nonterminals, 2 terminals, <=3 productions of length <=3; unreachable, unproductive, nullable, cyclic, ambiguous ones included) plus the 1-edit neighbourhoods of 11 seed grammars (LALR-not-SLR, LR(1)-not-LALR, dangling else, expression grammars, ...); thorough adds G(2,3,4,2), G(3,2,4,2), G(2,2,4,3)/sym, G(1,3,4,3), G(3,3,3,2)/sym and 2-edit neighbourhoods. Every grammar is rendered under a rotating presentation (struct/enum, named/tuple, `_` fields, declaration order, naming order). Added as named members, not as exhaustive scopes: the scaled families (grammars large in exactly one dimension - up to 59 precedence levels, right-hand sides of up to 600 symbols, enums of 300 variants, 456 states, unit chains of 249 nonterminals, conflicting grammars with states of 300 and more items; sizes straddle 10, 17, 33, 65, 129, 257, 514) and the name-relation space (all ordered pairs of related names - prefixes, case / underscore / digit variants of one another - in 16 pairs of roles)."
REAL_NOTE = "Real-code layer: every accepted grammar of G(2,2,3,2)/sym (quick; thorough: G(2,2,3,2), G(1,2,3,3), G(2,2,2,3), G(2,3,3,2), G(3,2,3,2), 1-edit neighbourhoods of the seeds) is emitted by the real generate, compiled by rustc and its real parse is run on every word of the input trie (depth 7 for 2 terminals) through a lazy counting iterator, a constant-payload iterator and a Vec, under catch_unwind with a time limit. Model layer: an interpreter of the tables and reduce-function facts extracted from the emitted text explores all configurations over the tries of every accepted grammar of the C04 scopes in lock-step with the reference LR(1) driver and Earley; it is bound to the code by comparing its trace with the real observation on every (grammar, word) of the real-code scope; if it diverges or cannot be extracted it is declared unbound and only the real layer decides. Both layers also run the scaled families (word depth up to 602) and the name-relation space."
CHECKS = {
 "C07": ("E1+E4 totality sweep", "exploration",
         "bounded-exhaustive exploration of four input families through the real generate in child processes with a per-input watchdog, plus bound probes",
         "No panic, abort or hang on: (a) every string of <=5 (quick) / <=7 (thorough) symbols over a 30-symbol alphabet (one representative per lexer character class and UTF-8 length); (b) every viable token-kind prefix of the Kiki grammar to depth 13 / 16 and every one-token extension, rendered to text; (c) every file of <=3 / <=4 items over the 210-item alphabet of C10 (all combinations of static violations); (d) every grammar of the C04 scopes (variant-less enums, no terminals, unreachable/unproductive nonterminals); (e) 25 bound probes at the stated bounds (2000 declarations, 64 KiB, nesting 256), each in its own process; (f) 8 growth series (generic nesting, nonterminal chains, precedence levels, attributes ...) run at sizes 4, 8, ... 64 in single-threaded children: a factor above 12 in CPU time between consecutive sizes is exponential growth and a violation (kiki's own n^5 construction stays below 2.5); also every naming of C05, the name-relation space, the scaled families and the large single-violation files of C10. A child that dies is re-run sequentially in trace mode to attribute the abort to an input.",
         "Between the small scopes and the bound probes the claim rests on the small-scope hypothesis; a probe that exceeds its time limit is inconclusive, never a violation (the automaton construction is polynomial of high degree).",
         "DESIGN.md section 3, C07"),
 "C08": ("E4 textsweep", "exploration",
         "bounded-exhaustive exploration of all strings over a symbol alphabet; oracle: independent reference lexer (R-lex)",
         "Every string of <=5 (quick) / <=6 (thorough, plus a budgeted pass over <=7 reported as its own scope) symbols over the 30-symbol alphabet, every Unicode scalar value in 10 lexer contexts, runs of one symbol of lengths 6..40 and around 2^6..2^16 (bare, in attributes, after identifiers), plus the repository's grammar files and hand-picked maximal-munch / attribute cases: if R-lex tokenises the string, the real tokenizer (hook) must return the same (kind, text, position) vector and generate must not report a lexical error; if R-lex rejects at (i, c), both must report exactly Lex(i, c).",
         "R-lex (appendix B) is the reading of the documented rules; longer strings rest on the small-scope hypothesis (9-state tokenizer).",
         "DESIGN.md section 3, C08"),
 "C09": ("E4 textsweep", "model_checking",
         "explicit-state exploration of the front-end parser's input trie (viable-prefix DFS with Earley over the hand-transcribed Kiki grammar), every node executed through the real generate; plus table isomorphism of parser.rs",
         "Every viable token-kind prefix to depth 15 (quick) / 18 (thorough) and every one-token extension is rendered to text (two lexeme lengths per kind, rotating separators and comments) and given to generate: sentence <=> neither Lex nor Parse error; otherwise Parse(start, text, end) of the first non-viable token, or Parse(len, \"\", len) for a proper prefix. Earley is cross-checked against a recursive-descent reference on every text. Scale probes: every text of the top of the trie (2 782 texts) behind 15 prefixes that move it past byte / token / line 2^8 and 2^16 (blanks, comments, blank lines, 33 000 declarations, long identifiers and attributes), and with each identifier / terminal identifier / attribute token blown up to 255..257 and 65 535..65 537 bytes. Structural complement: ACTION/GOTO tables extracted from the checked-in parser.rs are isomorphic to the reference LALR(1) tables of the grammar (67 states).",
         "R-kiki: the grammar transcribed by hand from parser.kiki (42 productions); beyond the depth bound the claim rests on the table isomorphism and the LR theorem.",
         "DESIGN.md section 3, C09"),
 "C10": ("E4 textsweep", "exploration",
         "bounded-exhaustive exploration of all small files over an item alphabet; oracle: reference validator computing the set of all violations (membership)",
         "Every file of <=3 (quick, 4.0e6 files) / <=4 (thorough, 6.3e8 files) items over a 210-item alphabet (start / terminal / struct / enum declarations over small name pools incl. other-namespace names, duplicates, wrong capitalisation, near-miss variant lists) plus the repository's should-fail corpus, every short identifier in 7 roles, the name-relation space, and large files (17 to 343 variants / nonterminals / terminals / fields) with one violation planted at every pair of boundary positions (3 278 files quick): Ok only if the violation set is empty; a validation error must be a member of the set with matching variant, name / symbol sequence and byte positions.",
         "R-validate implements the catalogue of appendix C; TableConflict on a file with violations is not constrained by the statement.",
         "DESIGN.md section 3, C10"),
 "C12": ("E4 textsweep", "exploration",
         "bounded-exhaustive exploration of all attribute bodies over a symbol alphabet; differential oracle (strip attributes, generate, re-insert)",
         "Every attribute body of <=4 symbols in the plain placement and <=3 symbols in all placements (quick; thorough <=5 / <=4) over ( ) [ ] { } a space \" # / $ e-acute euro emoji newline backslash tab CR, before a struct, an enum and the terminal declaration, alone, with a trailing comment, without line break, and with a second attribute in both orders: for balanced bodies, generate(source) equals generate(source without attributes) with each declaration's attributes inserted as lines immediately before its `pub struct|enum` (verbatim, right place, right order, nowhere else); otherwise exactly the Lex error of C08.",
         "the emitted definition line starts with `pub struct NAME` / `pub enum NAME`; if not found the oracle reports 'not applicable', never a violation.",
         "DESIGN.md section 3, C12"),
 "C13": ("E4 textsweep (+E3)", "exploration",
         "bounded-exhaustive exploration of all type expressions up to a nesting bound; every use site in the emitted text re-tokenised and compared; rustc for real types",
         "All type expressions of nesting depth <=2 over unit, paths of 1-3 segments and generic callees with 1-2 arguments (1.3e3 quick / 4.6e4 thorough) plus a chain of deeper nestings, types large in one dimension (identifiers of 31..4096 characters, paths of up to 257 segments, up to 257 generic arguments, two-argument nesting to depth 200), every Rust keyword, primitive type and underscore-initial name as a path segment in every position, and the name-relation space (lookups by name), spelt with rotating whitespace and comments, each declared as a terminal payload in a grammar exposing 12 use sites (terminal enum, named/tuple fields of a struct and of enum variants, node enum, helper functions): every located occurrence must equal the declaration token for token. For 11 real Rust types rustc asserts type identity at every public use site.",
         "token equality is tested on the whitespace-free concatenation of tokens (unambiguous for this syntax).",
         "DESIGN.md section 3, C13"),
 "C14": ("E5 permexplore", "model_checking",
         "stateless exploration of all hash-iteration-order schedules within a deviation bound, through an order-controllable HashMap/HashSet seam, on the real generate",
         "Every iteration over a hash collection is a choice point (the seam offers no un-instrumented way to iterate). For each input: identity schedule twice (must agree), then every alternative at each choice point (all n! orders up to a cap, else adjacent transpositions + reversal + rotations), deviation bound 1 (quick) / 2 (thorough); a replayed prefix that passes different choice points is a machinery error. Corpus: repository files incl. should-fail, grammars with conflicts in several states, G(2,2,3,2), and all 1.1e6 invalid files of <=3 items with >=2 simultaneous violations. Oracle: byte-identical RustSrc / identical Debug of the error. Histories: generate as an operation on the state of the process - every history of 2 calls over a 163-text alphabet (every helper name in every upper-case role, uniquifier chains, one text per error kind) and every history of 3 calls over 10 of them, each in its own fresh child process, every call compared with the same text called alone in a fresh process (28 000 processes quick). A free-running pass with the real RandomState in 8 child processes that visit the corpus in different orders and under different environments (variables incl. every one kiki's source reads, working directory) enumerates 4 environment classes x 2 visiting orders; only its hash keys are sampled - a difference it finds is reported, its silence is not the verdict on hash order.",
         "hash collections reach kiki only through the cfg-switched imports (a source scan reports bypasses in the evidence).",
         "DESIGN.md section 3, C14"),
 "C15": ("E4 textsweep", "exploration",
         "bounded-exhaustive exploration of all short texts over a line alphabet vs. a direct implementation of the stated rule; round trip with an independent SHA-256",
         "(a) every text of <=5 (quick) / <=6 (thorough) lines over a 19-line alphabet x {LF, CRLF, unterminated last line}: get_grammar_hash equals the reference rule; (b) for every accepted source of the corpus (repository examples, G(2,2,3,2), in up to 7 layouts) the emitted text begins with a // header containing the digest and get_grammar_hash(generate(src)) == R-sha256(src); (c) distinct sources carry distinct stored digests.",
         "a line ends at LF or CRLF; R-sha256 is checked against FIPS vectors at start-up.",
         "DESIGN.md section 3, C15"),
 "C16": ("E4 textsweep", "exploration",
         "bounded-exhaustive exploration of re-layouts by deviation from the canonical layout; oracle: result equality with error positions mapped through the token correspondence",
         "For 79 (quick) / ~280 (thorough) base sources (repository files incl. should-fail and parser.kiki, conflict grammars, texts with parse and validation errors of every kind, samples of G(2,2,3,2)): the original layout, all uniform layouts over a 10-element gap alphabet (LF, CRLF, tab, U+2003, comments incl. one with a bare CR, nothing) and every layout differing from the canonical one in 1 gap (quick) / 2 gaps (thorough, <=60 tokens; quick <=36), every Unicode White_Space character as a gap, a comment beginning with every printable ASCII character (`///`, `//!`, `//#[a]`, ...) as a gap, and 30 large gaps (255..257 and 65 534..65 537 blanks, hundreds of lines, comments of 2^8 and 2^16 bytes, 14 000 comment lines); Ok outputs equal modulo the hash line; errors equal with every ByteIndex sharing a descriptor (start / start+1 / end of token k, source length) between the two layouts.",
         "a re-layout is defined by R-lex token equality; sources that do not lex have no re-layouts.",
         "DESIGN.md section 3, C16"),
 "C05": ("E3 rustc compile-only", "exploration",
         "bounded-exhaustive exploration of the naming space by deviation from a conventional naming; rustc --emit=metadata decides",
         "Every (role, name) pair (deviation 1, quick) and every pair of such assignments over the curated pool (deviation 2, thorough) over six carrier grammars (enum-rooted, struct-rooted, epsilon+recursion, no terminals, variant-less start, unit-like start); roles: terminal enum, terminals, nonterminals, variants, named fields; name pools: the generator's own helper names and their uniquified forms, letter-less names, plus a pool harvested mechanically from the emitted text, so a helper added later enters by itself; payload type `crate::P` has no derives at all. Also compiled: uniquifier chains (State, State2 .. State12 / .. State101), the name-relation space, every accepted grammar of six small scopes (no terminals, one terminal, up to four nonterminals) and of the presentation space, and the scaled families. rustc's full type and borrow check must report no error in the module.",
         "Rust keywords and prelude items are excluded (precondition); rustc 1.95 is the judge; clashes needing three simultaneously hostile names are not reached.",
         "DESIGN.md section 3, C05"),
 "C06": ("E3 rustc client", "exploration",
         "exhaustive enumeration of the presentation space; a generated client module must type-check against the emitted module and its run-time order checks must pass",
         "All 1 690 presentations (struct / sole variant / first / middle / last variant x named / tuple / empty x <=3 fields x every used/`_` mask x terminal/nonterminal symbols x root/inner carrier; thorough adds recursive symbols, G(2,2,3,2) and seed neighbourhoods), each terminal with its own payload type; plus the name-relation space and the scaled families as clients, and a text-level oracle (emitted `pub struct|enum` items and parse signature vs. declarations) over repository grammars, G(2,2,3,2), all valid files of the C10 space, every short identifier in 7 roles and the name-relation space. The client constructs every type with exactly the declared non-underscore fields (Box<T> for nonterminals, the declared payload type for terminals), destructures without `..`, matches every enum without wildcard, accesses struct fields from a sibling module, binds parse::<Vec<_>>, parse::<MyIter<_>> and parse::<Empty<_>> to fn(_) -> Result<Start, Option<Tok>>; at run time derive(Debug) shows field order and derive(PartialOrd) variant order.",
         "rustc 1.95 type checker; fieldsets longer than 3 are outside the exhaustive part.",
         "DESIGN.md section 3, C06"),
 "C01": ("E2 pda + E3 rustc-run", "model_checking",
         "explicit-state exploration of the emitted parser's configurations over input tries (model bound to code by trace replay) plus exhaustive runs of the rustc-compiled real parse",
         "Ok iff the token sequence is derivable (Earley over the declared productions), no panic, termination, payload independence. " + REAL_NOTE,
         "Earley recogniser and canonical LR(1) driver as references (cross-checked against each other on every explored word); rustc.",
         "DESIGN.md section 3, C01"),
 "C02": ("E3 rustc-run", "model_checking",
         "exhaustive runs of the rustc-compiled real parse over input tries; returned trees compared with the validated reference derivation",
         "For every sentence explored, the {:?} rendering of the tree returned by the real compiled parse (payload = input position) equals the rendering of the unique reference derivation tree (built by the reference LR(1) driver, validated by an independent derivation checker): right constructor per node, non-underscore fields in declaration order, boxed subtrees, original payloads, each token exactly once. " + REAL_NOTE,
         "reference LR(1) driver + derivation checker; derive(Debug) output format of rustc 1.95.",
         "DESIGN.md section 3, C02"),
 "C03": ("E2 pda + E3 rustc-run", "model_checking",
         "explicit-state exploration of the emitted parser's configurations over input tries (model bound to code by trace replay) plus exhaustive runs of the rustc-compiled real parse with a counting iterator",
         "For every non-sentence explored: Err(Some(t)) carries the very token (kind and payload = index) at the index where the reference canonical LR(1) driver stops (on grammars with unproductive nonterminals: any index from the first token that no sentence extends to that one; the unchanged tree's departure from the literal statement there is known finding D13), Err(None) exactly when it stops at end of input, and the counting iterator saw at most index+1 calls to next(). " + REAL_NOTE,
         "canonical LR(1) driver as reference (equal to Earley non-viability when all nonterminals are productive, which is self-checked).",
         "DESIGN.md section 3, C03"),
 "C04": ("E1 gramsweep", "model_checking",
         "bounded-exhaustive exploration of program scopes: real generate vs. reference LALR(1) automaton (canonical LR(1) merged by core)",
         "For every grammar of the scopes the real kiki::generate is executed and its Ok/TableConflict verdict is compared with the conflict-freeness of the reference LALR(1) automaton; any other outcome on a well-formed file is a violation. The reference is cross-checked on every grammar against an independent LR(0)+lookahead-propagation construction and against SLR/LR(1) containment. " + SCOPE_NOTE,
         "R-gram reference automata (self-checked); names are opaque to kiki apart from hygiene (C05).",
         "DESIGN.md section 3, C04"),
 "C11": ("E1 gramsweep", "model_checking",
         "bounded-exhaustive exploration of program scopes: every TableConflictErr compared field by field with the reference LALR(1) automaton",
         "For every conflicting grammar of the scopes the public fields of the returned TableConflictErr are checked: state index in range, both items in that state, the two items demand different actions on one lookahead, attached file = input grammar, attached machine = reference LALR(1) automaton (states matched by item sets, transitions, start state). " + SCOPE_NOTE,
         "R-gram reference automata (self-checked).",
         "DESIGN.md section 3, C11"),
 "C17": ("E1 gramsweep", "model_checking",
         "bounded-exhaustive exploration of program scopes: tables extracted from the emitted text vs. reference LALR(1) tables, by state bijection",
         "For every accepted grammar of the scopes the ACTION/GOTO tables, start state and reduce functions are read from the text the real generate emitted (token-level extractor) and put in bijection with the reference LALR(1) tables by simultaneous traversal; every cell must agree, every emitted state must be reached, state counts must agree. " + SCOPE_NOTE,
         "R-gram reference automata (self-checked); the extractor (an unreadable text is a machinery error, never a verdict).",
         "DESIGN.md section 3, C17"),
 "C18": ("E6 osetmc", "model_checking",
         "explicit-state model checking (stateright BFS to fixpoint) of the real Oset against a BTreeSet reference",
         "Every history of insert/extend/from_iter/new/default/clone over a 7- (quick) or 8-element (thorough) domain, with all argument sequences up to length 4 / 5 (duplicates, unsorted), is covered because the search closes: the real kiki::Oset object is the model-checker state. Per-state oracle: iteration by value / by reference / through Deref, strict order, contains; per-pair oracle over all reached objects: ==, cmp, partial_cmp, Hash are functions of the element sets and cmp is a total order.",
         "std BTreeSet is the reference; four element types stand for any Ord type; stateright 0.31 explores the state graph.",
         "DESIGN.md section 3, C18"),
}
PENDING = {}  # id -> reason (only while a check is under construction)

props = [json.loads(l) for l in open(os.path.join(HERE, "properties.jsonl"))]
checks = []
for p in props:
    i = p["id"]
    if i not in CHECKS: continue
    eng, cat, tech, text, note, ref = CHECKS[i]
    checks.append({
        "property_id": i,
        "quick_cmd": f"./check {i} quick",
        "thorough_cmd": f"./check {i} thorough",
        "evidence_file": f"/verif/evidence/{i}.json",
        "replay_cmd_template": "./check replay {path}",
        "engine": eng,
        "level_claimed": {"category": cat, "text": text, "design_ref": ref},
        "level_note": note,
        "technique": tech,
    })
na = [{"property_id": p["id"], "reason": PENDING.get(p["id"], "check not built yet (construction in progress; see DESIGN.md appendix G)")} for p in props if p["id"] not in CHECKS]
hooks_commits = os.popen("git -C /repo log --format=%H --grep='^verif hook'").read().split()
manifest = {
 "version": 1,
 "setup_cmd": "./setup.sh",
 "hooks": {
   "guard": "kiki_verif",
   "enable": "RUSTFLAGS=\"--cfg kiki_verif\" (set in /verif/mc/.cargo/config.toml; the harness crate depends on /repo/kiki by path, so every check rebuilds kiki from the working tree with the guard on)",
   "baseline_off_cmd": "cd /repo && cargo test --workspace --no-fail-fast --offline",
   "source_commits": hooks_commits,
   "add_only": True,
 },
 "engines": [],
 "checks": checks,
 "not_applicable": na,
 "notes": "All checks are bounded-exhaustive explorations (model checking family); see DESIGN.md. Exit 0 = held (known findings only), 1 = VIOLATION, 2 = MACHINERY-ERROR (never a verdict).",
}
engines = {}
for c in checks:
    engines.setdefault(c["engine"], []).append(c["property_id"])
manifest["engines"] = [{"name": k, "path": "/verif/mc", "serves_properties": v, "kind_free_text": "bounded-exhaustive explorer in the kiki-mc binary"} for k, v in engines.items()]
if not na: del manifest["not_applicable"]
out = os.path.join(HERE, "MANIFEST.json")
json.dump(manifest, open(out, "w"), indent=1)
open(out, "a").write("\n")
try:
    import jsonschema
    jsonschema.validate(manifest, json.load(open("/root/.vp/MANIFEST.schema.json")))
    print("MANIFEST.json valid;", len(checks), "checks,", len(na), "not claimed")
except ImportError:
    print("jsonschema not available in this python; wrote MANIFEST.json unvalidated")
