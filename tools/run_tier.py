#!/usr/bin/env python3
"""Runs a tier of all (or some) checks and records exit code, wall time and the headline numbers.
   tools/run_tier.py [--repo R] quick|thorough all|C01,C02,...   -> tier_<tier>_results.json (in cwd)
With --repo other than /repo the harness crate's path dependency is redirected to that copy (used for
background runs on a snapshot; registered checks always use /repo)."""
import json, os, subprocess, sys, time
HERE = os.path.dirname(os.path.dirname(os.path.abspath(__file__)))
a = sys.argv[1:]
repo = "/repo"
if a and a[0] == "--repo": repo = a[1]; a = a[2:]
tier, which = a[0], a[1]
ids = [f"C{n:02d}" for n in range(1, 19)] if which == "all" else which.split(",")
env = dict(os.environ)
if repo != "/repo":
    ct = os.path.join(HERE, "mc", "Cargo.toml")
    s = open(ct).read().replace('path = "/repo/kiki"', f'path = "{repo}/kiki"')
    open(ct, "w").write(s)
    env["VERIF_REPO"] = repo
out = {}
for c in ids:
    t0 = time.time()
    r = subprocess.run([os.path.join(HERE, "check"), c, tier], text=True, capture_output=True, env=env)
    wall = round(time.time() - t0, 1)
    ev = {}
    try:
        e = json.load(open(os.path.join(HERE, "evidence", c + ".json")))
        cov = e["coverage"]
        ev = {k: cov[k] for k in ("states", "transitions", "traces_validated_against_impl", "evaluations", "distinct_nontrivial", "exhaustive") if k in cov}
        ev["scopes"] = cov.get("scopes")
    except Exception as x:
        ev = {"error": str(x)}
    out[c] = {"exit": r.returncode, "wall_s": wall, "last_lines": r.stdout.strip().splitlines()[-3:], "evidence": ev}
    print(c, tier, "exit", r.returncode, wall, "s", flush=True)
    json.dump(out, open(f"tier_{tier}_results.json", "w"), indent=1)
