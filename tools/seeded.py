#!/usr/bin/env python3
"""Handling of breaking changes written by independent sub-agents (each worked in /tmp/seed/<ID> only).

  tools/seeded.py verify <ID> -- <demo command run inside /tmp/seed/<ID>>
        confirms, in the agent's scratch worktree: patch.diff equals the applied change, the repository's
        suite passes WITH the change (118 tests), the demo FAILS with it and PASSES without it.
  tools/seeded.py detect <ID> <check,check,...|all>
        applies /tmp/seed/<ID>/patch.diff (or /verif/seeded/<ID>/patch.diff) to /repo, runs the quick
        checks, reverts, prints and stores which checks report a VIOLATION.
  tools/seeded.py keep <ID> <property> "<what it needs to manifest>"
        copies patch, demo and notes to /verif/seeded/<ID>/ and writes meta.json from the recorded results.
"""
import json, os, re, shutil, subprocess, sys, time

HERE = os.path.dirname(os.path.dirname(os.path.abspath(__file__)))
STATE = os.path.join(HERE, "seeded", "_work.json")


def sh(cmd, cwd=None, env=None):
    return subprocess.run(cmd, shell=True, text=True, capture_output=True, cwd=cwd, env=env)


def load():
    return json.load(open(STATE)) if os.path.exists(STATE) else {}


def save(d):
    os.makedirs(os.path.dirname(STATE), exist_ok=True)
    json.dump(d, open(STATE, "w"), indent=1, sort_keys=True)


def patch_of(i):
    for p in (f"/tmp/seed/{i}/patch.diff", os.path.join(HERE, "seeded", i, "patch.diff")):
        if os.path.exists(p):
            return p
    raise SystemExit("no patch for " + i)


def verify(i, demo):
    wt = f"/tmp/seed/{i}"
    env = dict(os.environ, CARGO_NET_OFFLINE="true", CARGO_TARGET_DIR=f"{wt}/target")
    st = load(); e = st.setdefault(i, {})
    # the applied change must be exactly patch.diff
    d = sh("git diff", cwd=wt).stdout
    same = d.strip() == open(f"{wt}/patch.diff").read().strip()
    touched = re.findall(r"^diff --git a/(\S+)", d, re.M)
    e["patch_matches_worktree"] = same
    e["files_touched"] = touched
    t = sh("cargo test --workspace --no-fail-fast --offline 2>&1 | grep -E '^test result|^error|FAILED|failed'", cwd=wt, env=env)
    passed = sum(int(x) for x in re.findall(r"(\d+) passed", t.stdout)); failed = sum(int(x) for x in re.findall(r"(\d+) failed", t.stdout))
    e["suite_with_change"] = {"passed": passed, "failed": failed}
    print("suite with change:", passed, "passed", failed, "failed; patch matches worktree:", same, touched)
    r1 = sh(demo, cwd=wt, env=env)
    e["demo_with_change_exit"] = r1.returncode
    print("demo WITH change: exit", r1.returncode, (r1.stdout + r1.stderr)[-400:].replace("\n", " | "))
    a = sh("git apply -R patch.diff", cwd=wt)
    assert a.returncode == 0, a.stderr
    try:
        r2 = sh(demo, cwd=wt, env=env)
        e["demo_without_change_exit"] = r2.returncode
        print("demo WITHOUT change: exit", r2.returncode, (r2.stdout + r2.stderr)[-300:].replace("\n", " | "))
    finally:
        sh("git apply patch.diff", cwd=wt)
    e["demo_command"] = demo
    e["confirmed"] = bool(same and passed >= 118 and failed == 0 and r1.returncode != 0 and r2.returncode == 0)
    print("CONFIRMED" if e["confirmed"] else "NOT CONFIRMED")
    save(st)


def detect(i, checks):
    p = patch_of(i)
    ids = [f"C{n:02d}" for n in range(1, 19)] if checks == "all" else checks.split(",")
    assert sh("git -C /repo status --porcelain").stdout.strip() == "", "/repo has uncommitted changes"
    a = sh(f"git -C /repo apply {p}")
    assert a.returncode == 0, a.stderr
    st = load(); e = st.setdefault(i, {}); det = e.setdefault("checks", {})
    try:
        for c in ids:
            t0 = time.time()
            r = sh(f"{HERE}/check {c} quick", env=dict(os.environ, VERIF_EVIDENCE_DIR=os.path.join(HERE, "scratch", "evidence-of-broken-trees")))
            lines = [l for l in r.stdout.splitlines() if l.startswith(("VIOLATION", "MACHINERY", "  what", "KNOWN"))]
            det[c] = {"exit": r.returncode, "violation": r.returncode == 1, "first": (lines[1] if len(lines) > 1 else (lines[0] if lines else ""))[:400], "wall_s": round(time.time() - t0, 1)}
            print(i, c, "exit", r.returncode, det[c]["first"][:200], flush=True)
    finally:
        sh("git -C /repo checkout -- .")
    save(st)


def keep(i, prop, needs):
    st = load(); e = st.get(i, {})
    dst = os.path.join(HERE, "seeded", i)
    os.makedirs(dst, exist_ok=True)
    src = f"/tmp/seed/{i}"
    if os.path.exists(src):
        shutil.copy(f"{src}/patch.diff", f"{dst}/patch.diff")
        if os.path.exists(f"{src}/NOTES.md"): shutil.copy(f"{src}/NOTES.md", f"{dst}/NOTES.md")
        if os.path.exists(f"{dst}/demo"): shutil.rmtree(f"{dst}/demo")
        if os.path.exists(f"{src}/demo"): shutil.copytree(f"{src}/demo", f"{dst}/demo", ignore=shutil.ignore_patterns("target", "*.o", "out"))
    meta = {
        "id": i, "breaks_property": prop, "needs_to_manifest": needs,
        "written_by": "independent sub-agent given only the property text and its own scratch worktree",
        "confirmed_by_me": {k: e.get(k) for k in ("patch_matches_worktree", "files_touched", "suite_with_change", "demo_command", "demo_with_change_exit", "demo_without_change_exit", "confirmed")},
        "quick_checks_run_with_the_change_applied_to_repo": e.get("checks", {}),
        "detected_by": sorted(c for c, v in e.get("checks", {}).items() if v.get("violation")),
    }
    json.dump(meta, open(f"{dst}/meta.json", "w"), indent=1)
    print("kept", i, "detected by", meta["detected_by"])


def matrix(repo):
    """applies every kept patch to the repository copy `repo`, runs ALL quick checks, records who reports"""
    env = dict(os.environ, VERIF_EVIDENCE_DIR=os.path.join(HERE, "scratch", "evidence-of-broken-trees"))
    if repo != "/repo":
        ct = os.path.join(HERE, "mc", "Cargo.toml")
        t = open(ct).read().replace('path = "/repo/kiki"', f'path = "{repo}/kiki"')
        open(ct, "w").write(t)
        env["VERIF_REPO"] = repo
    out_path = os.path.join(HERE, "seeded", "matrix.json")
    out = json.load(open(out_path)) if os.path.exists(out_path) else {}
    ids = [f"C{n:02d}" for n in range(1, 19)]
    for d in sorted(os.listdir(os.path.join(HERE, "seeded"))):
        p = os.path.join(HERE, "seeded", d, "patch.diff")
        if not os.path.exists(p) or d in out:
            continue
        a = sh(f"git -C {repo} apply {p}")
        if a.returncode != 0:
            print(d, "does not apply", a.stderr[:200]); continue
        row = {}
        try:
            for c in ids:
                t0 = time.time()
                r = subprocess.run([os.path.join(HERE, "check"), c, "quick"], text=True, capture_output=True, env=env)
                row[c] = {"exit": r.returncode, "wall_s": round(time.time() - t0, 1)}
                print(d, c, r.returncode, flush=True)
        finally:
            sh(f"git -C {repo} checkout -- .")
        out[d] = row
        json.dump(out, open(out_path, "w"), indent=1, sort_keys=True)


def recheck(repo):
    """applies every kept patch to the repository copy `repo` and re-runs the quick checks its meta.json lists
    under detected_by: every one of them must still report a VIOLATION (regression test of the checks)"""
    env = dict(os.environ, VERIF_EVIDENCE_DIR=os.path.join(HERE, "scratch", "evidence-of-broken-trees"))
    if repo != "/repo":
        ct = os.path.join(HERE, "mc", "Cargo.toml")
        t = open(ct).read().replace('path = "/repo/kiki"', f'path = "{repo}/kiki"')
        open(ct, "w").write(t)
        env["VERIF_REPO"] = repo
    out_path = os.path.join(HERE, "seeded", "recheck.json")
    out = {}
    for d in sorted(os.listdir(os.path.join(HERE, "seeded"))):
        p = os.path.join(HERE, "seeded", d, "patch.diff")
        m = os.path.join(HERE, "seeded", d, "meta.json")
        if not (os.path.exists(p) and os.path.exists(m)):
            continue
        want = json.load(open(m)).get("detected_by", [])
        a = sh(f"git -C {repo} apply {p}")
        if a.returncode != 0:
            print(d, "does not apply", a.stderr[:200]); out[d] = {"applies": False}; continue
        row = {}
        try:
            for c in want:
                t0 = time.time()
                r = subprocess.run([os.path.join(HERE, "check"), c, "quick"], text=True, capture_output=True, env=env)
                row[c] = {"exit": r.returncode, "wall_s": round(time.time() - t0, 1)}
                print(d, c, r.returncode, "" if r.returncode == 1 else "  <-- NO LONGER REPORTED", flush=True)
        finally:
            sh(f"git -C {repo} checkout -- .")
        out[d] = row
        json.dump(out, open(out_path, "w"), indent=1, sort_keys=True)
    bad = [(d, c) for d, row in out.items() for c, v in row.items() if isinstance(v, dict) and v.get("exit") != 1]
    print("regressions:", bad)


if __name__ == "__main__":
    a = sys.argv
    if len(a) == 4 and a[1] == "recheck" and a[2] == "--repo":
        recheck(a[3]); sys.exit(0)
    if len(a) == 4 and a[1] == "matrix" and a[2] == "--repo":
        matrix(a[3]); sys.exit(0)
    if len(a) >= 5 and a[1] == "verify" and a[3] == "--": verify(a[2], " ".join(a[4:]))
    elif len(a) == 4 and a[1] == "detect": detect(a[2], a[3])
    elif len(a) == 5 and a[1] == "keep": keep(a[2], a[3], a[4])
    else: raise SystemExit(__doc__)
