#!/bin/bash
# Builds the framework offline from files on disk only (run once after a fresh restore).
set -eu
HERE="$(cd "$(dirname "${BASH_SOURCE[0]}")" && pwd)"
export CARGO_NET_OFFLINE=true
cd "$HERE/mc"
[ -f Cargo.lock ] || cp /repo/Cargo.lock Cargo.lock
cargo build --release --offline
echo "setup ok"
